//! C32 — Header-ex requests are retried boundedly and answered once.        (engine E3)
//!
//! System: the real `HeaderExClientHandler` behind a recording `RequestSender`, a real
//! `PeerTracker`, tokio current-thread runtime with a paused clock.
//! An execution is a sequence of environment events chosen from the enabled menu; choice 0
//! is the default environment ("the oldest outstanding send gets a valid response; else the
//! schedule tick if a request can make progress; else idle = end").  All executions with
//! <= D non-default choices are enumerated, for every peer population.
//! Oracle (from the statement, over a model kept by the driver — peer states are the
//! driver's own record of the events it injected, sends are what the recorder saw).
#[path = "../shared/hexclient_sys.rs"]
mod hexclient_sys;

use celestia_proto::p2p::pb::HeaderRequest;
use celestia_types::ExtendedHeader;
use hexclient_sys::*;
use lumina_node::verif::header_ex_client::{VFail, VPeer, VReply};
use lv_core::*;
use serde_json::{Value, json};

#[derive(Clone, Copy, Debug, PartialEq, Eq, PartialOrd, Ord)]
enum Kind {
    Plain,
    Archival,
    Trusted,
    /// marked archival (`PeerTracker::mark_as_archival`) without ever having had a connection
    ArchivalMarked,
}

impl Kind {
    fn name(self) -> &'static str {
        match self {
            Kind::Plain => "plain",
            Kind::Archival => "archival",
            Kind::Trusted => "trusted",
            Kind::ArchivalMarked => "archival-never-connected",
        }
    }
    fn from_name(s: &str) -> Kind {
        match s {
            "plain" => Kind::Plain,
            "archival" => Kind::Archival,
            "trusted" => Kind::Trusted,
            "archival-never-connected" => Kind::ArchivalMarked,
            o => panic!("bad peer kind {o}"),
        }
    }
}

/// (kind, initially connected)
type Pop = Vec<(Kind, bool)>;

fn pop_json(p: &Pop) -> Value {
    json!(p.iter().map(|(k, c)| json!([k.name(), c])).collect::<Vec<_>>())
}

fn pop_from_json(v: &Value) -> Pop {
    v.as_array()
        .expect("population")
        .iter()
        .map(|e| (Kind::from_name(e[0].as_str().unwrap()), e[1].as_bool().unwrap()))
        .collect()
}

#[derive(Clone, Copy, Debug, PartialEq, Eq)]
enum Ans {
    Valid,
    NotFound,
    Invalid,
    Fail,
}

impl Ans {
    const ALL: [Ans; 4] = [Ans::Valid, Ans::NotFound, Ans::Invalid, Ans::Fail];
    fn name(self) -> &'static str {
        match self {
            Ans::Valid => "valid",
            Ans::NotFound => "not-found",
            Ans::Invalid => "wrong-height",
            Ans::Fail => "outbound-failure",
        }
    }
    /// class of the caller-visible error this answer turns into when it is the final one
    fn err_class(self) -> &'static str {
        match self {
            Ans::Valid => "-",
            Ans::NotFound => "not-found",
            Ans::Invalid => "invalid-response",
            Ans::Fail => "outbound-failure",
        }
    }
}

#[derive(Clone, Copy, Debug, PartialEq, Eq)]
enum Ev {
    /// answer the send with this recorder id
    Answer(u64, Ans),
    Tick,
    NewReq,
    Toggle(usize),
    DropRx(usize),
    Stop,
    Idle,
}

struct SendM {
    id: u64,
    peer: VPeer,
    req: usize,
    answered: Option<Ans>,
}

struct ReqM {
    request: HeaderRequest,
    expect: Vec<ExtendedHeader>,
    rx: Option<VReply>,
    dropped: bool,
    /// "ok" | "err:<class>"
    got: Option<String>,
    sends: Vec<usize>,
}

struct Run {
    sys: Sys,
    reqs: Vec<ReqM>,
    sends: Vec<SendM>,
    seen_sends: usize,
    stopped: bool,
    viol: Vec<(String, String)>,
    trace: Vec<String>,
}

fn push_viol(v: &mut Vec<(String, String)>, k: &str, what: String) {
    if !v.iter().any(|(x, _)| x == k) {
        v.push((k.to_string(), what));
    }
}

impl Run {
    fn new(pop: &Pop) -> Run {
        let mut sys = Sys::new();
        for (k, conn) in pop {
            let i = sys.add_peer(*k == Kind::Trusted, matches!(k, Kind::Archival | Kind::ArchivalMarked));
            if *k == Kind::ArchivalMarked {
                // the flag is set on a peer id that has no connection (Node::mark_as_archival)
                let peer = sys.peers[i].peer;
                sys.client.mark_as_archival(peer);
            }
            if *conn {
                sys.connect(i);
            }
        }
        Run {
            sys,
            reqs: vec![],
            sends: vec![],
            seen_sends: 0,
            stopped: false,
            viol: vec![],
            trace: vec![],
        }
    }

    fn new_request(&mut self) {
        let f = fixtures();
        let (request, expect) = if self.reqs.is_empty() {
            (height_request(5, 1), vec![f.low[1].clone()])
        } else {
            (height_request(7, 2), vec![f.low[3].clone(), f.low[4].clone()])
        };
        let rx = self.sys.client.request(request.clone());
        self.reqs.push(ReqM {
            request,
            expect,
            rx: Some(rx),
            dropped: false,
            got: None,
            sends: vec![],
        });
    }

    fn outstanding(&self) -> Vec<u64> {
        self.sends.iter().filter(|s| s.answered.is_none()).map(|s| s.id).collect()
    }

    /// attempts 1 and 2 may go to any connected peer, attempt 3 to an archival one
    fn needed_peer_connected(&self, r: &ReqM) -> bool {
        let need_archival = r.sends.len() >= 2;
        self.sys.peers.iter().any(|p| p.conn.is_some() && (!need_archival || p.archival))
    }

    fn can_progress(&self) -> bool {
        !self.stopped
            && self.reqs.iter().any(|r| {
                r.got.is_none()
                    && !r.dropped
                    && r.sends.len() < 3
                    && r.sends.iter().all(|s| self.sends[*s].answered.is_some())
                    && self.needed_peer_connected(r)
            })
    }

    fn menu(&self) -> Vec<Ev> {
        let out = self.outstanding();
        let default = if let Some(id) = out.first() {
            Ev::Answer(*id, Ans::Valid)
        } else if self.can_progress() {
            Ev::Tick
        } else {
            Ev::Idle
        };
        let mut m = vec![default];
        for id in &out {
            for a in Ans::ALL {
                m.push(Ev::Answer(*id, a));
            }
        }
        m.push(Ev::Tick);
        if self.reqs.len() < 2 {
            m.push(Ev::NewReq);
        }
        for i in 0..self.sys.peers.len() {
            m.push(Ev::Toggle(i));
        }
        for (j, r) in self.reqs.iter().enumerate() {
            if !r.dropped && r.got.is_none() {
                m.push(Ev::DropRx(j));
            }
        }
        if !self.stopped {
            m.push(Ev::Stop);
        }
        // the default appears once, in front
        let mut seen_default = false;
        m.retain(|e| {
            if *e == default {
                if seen_default {
                    return false;
                }
                seen_default = true;
            }
            true
        });
        m
    }

    fn label(&self, e: &Ev) -> String {
        match e {
            Ev::Answer(id, a) => {
                let s = self.sends.iter().find(|s| s.id == *id).unwrap();
                format!("answer(send#{id} of r{} try{}: {})", s.req, self.reqs[s.req].sends.iter().position(|x| self.sends[*x].id == *id).unwrap() + 1, a.name())
            }
            Ev::Tick => "tick".into(),
            Ev::NewReq => format!("request r{}", self.reqs.len()),
            Ev::Toggle(i) => {
                let p = &self.sys.peers[*i];
                let kind = if p.trusted { "trusted" } else if p.archival { "archival" } else { "plain" };
                format!("{} peer#{i}({kind})", if p.conn.is_some() { "disconnect" } else { "connect" })
            }
            Ev::DropRx(j) => format!("caller of r{j} drops its receiver"),
            Ev::Stop => "stop".into(),
            Ev::Idle => "idle(end)".into(),
        }
    }

    async fn apply(&mut self, e: Ev) {
        let f = fixtures();
        match e {
            Ev::Answer(id, a) => {
                let s = self.sends.iter_mut().find(|s| s.id == id).unwrap();
                s.answered = Some(a);
                let (peer, req) = (s.peer, s.req);
                match a {
                    Ans::Valid => {
                        let resp = self.reqs[req].expect.iter().map(ok_response).collect();
                        self.sys.client.respond(id, peer, resp)
                    }
                    Ans::NotFound => self.sys.client.respond(id, peer, vec![not_found_response()]),
                    Ans::Invalid => self.sys.client.respond(id, peer, vec![ok_response(&f.low[0])]),
                    Ans::Fail => self.sys.client.fail(id, peer, VFail::ConnectionClosed),
                }
                self.sys.settle().await;
            }
            Ev::Tick => {
                let ran = self.sys.tick().await;
                self.trace.push(format!("tick-ran={ran}"));
            }
            Ev::NewReq => {
                self.new_request();
                self.sys.settle().await;
            }
            Ev::Toggle(i) => {
                if self.sys.peers[i].conn.is_some() {
                    self.sys.disconnect(i)
                } else {
                    self.sys.connect(i)
                }
                self.sys.settle().await;
            }
            Ev::DropRx(j) => {
                self.reqs[j].rx = None;
                self.reqs[j].dropped = true;
                self.sys.settle().await;
            }
            Ev::Stop => {
                self.sys.client.stop();
                self.stopped = true;
                self.sys.settle().await;
            }
            Ev::Idle => {}
        }
        self.observe();
    }

    /// Safety part of the oracle, after every event.
    fn observe(&mut self) {
        let sent = self.sys.client.sent();
        for (id, peer, request) in &sent[self.seen_sends..] {
            let Some(req) = self.reqs.iter().position(|r| r.request == *request) else {
                push_viol(&mut self.viol, "sent-unknown-request", format!("send #{id} carries {request:?}, which no caller asked for"));
                continue;
            };
            let pi = self.sys.peer_index(*peer);
            let (connected, archival) = pi.map(|i| (self.sys.peers[i].conn.is_some(), self.sys.peers[i].archival && self.sys.peers[i].conn.is_some())).unwrap_or((false, false));
            let attempt = self.reqs[req].sends.len() + 1;
            // which peer was picked is random (shuffle): it never enters the observation key
            self.trace.push(format!("send r{req} try{attempt}"));
            if !connected {
                push_viol(&mut self.viol, "sent-to-disconnected-peer", format!("attempt {attempt} of r{req} (send #{id}) went to peer {pi:?}, which is not connected"));
            }
            if attempt > 3 {
                push_viol(&mut self.viol, "sent-more-than-three-times", format!("r{req} was sent {attempt} times"));
            }
            if attempt == 3 && !archival {
                push_viol(&mut self.viol, "last-attempt-not-to-archival-peer", format!("third attempt of r{req} (send #{id}) went to peer {pi:?}, which is not an archival peer"));
            }
            if self.reqs[req].got.is_some() {
                push_viol(&mut self.viol, "sent-after-answer", format!("r{req} was sent again (send #{id}) after its caller had been answered"));
            }
            self.sends.push(SendM { id: *id, peer: *peer, req, answered: None });
            let idx = self.sends.len() - 1;
            self.reqs[req].sends.push(idx);
        }
        self.seen_sends = sent.len();

        for j in 0..self.reqs.len() {
            if self.reqs[j].got.is_some() {
                continue;
            }
            let Some(rx) = self.reqs[j].rx.as_mut() else { continue };
            let got = try_get(rx);
            let r = &self.reqs[j];
            let answers: Vec<Option<Ans>> = r.sends.iter().map(|s| self.sends[*s].answered).collect();
            match got {
                Got::Empty => {}
                Got::Closed => push_viol(&mut self.viol, "reply-channel-closed-without-answer", format!("the reply channel of r{j} was closed without a value")),
                Got::Ok(v) => {
                    if !answers.contains(&Some(Ans::Valid)) {
                        push_viol(&mut self.viol, "ok-answer-without-valid-response", format!("r{j} answered Ok but no attempt got a valid response (attempts {answers:?})"));
                    } else if v != r.expect {
                        push_viol(&mut self.viol, "ok-answer-differs-from-response", format!("r{j} answered with heights {:?}, the valid response had {:?}", v.iter().map(|h| h.height()).collect::<Vec<_>>(), r.expect.iter().map(|h| h.height()).collect::<Vec<_>>()));
                    }
                    self.trace.push(format!("r{j} <- ok"));
                    self.reqs[j].got = Some("ok".into());
                }
                Got::Err(class) => {
                    if class == "cancelled" {
                        if !self.stopped {
                            push_viol(&mut self.viol, "cancelled-without-stop", format!("r{j} answered RequestCancelled but the client was not stopped"));
                        }
                    } else if answers.len() < 3 || answers.iter().any(|a| a.is_none()) {
                        push_viol(&mut self.viol, "error-before-final-attempt", format!("r{j} answered error {class} after attempts {answers:?}: retries were left"));
                    } else if answers[2].map(|a| a.err_class()) != Some(class.as_str()) {
                        push_viol(&mut self.viol, "wrong-final-error", format!("r{j} answered error {class}, its final attempt ended with {:?}", answers[2]));
                    }
                    self.trace.push(format!("r{j} <- err:{class}"));
                    self.reqs[j].got = Some(format!("err:{class}"));
                }
            }
        }
    }

    /// Fair tail (ticks + honest answers, no further faults), then the liveness part.
    async fn tail_and_liveness(&mut self) {
        for _ in 0..8 {
            let out = self.outstanding();
            let before = (self.seen_sends, self.reqs.iter().filter(|r| r.got.is_some()).count());
            for id in out {
                self.apply(Ev::Answer(id, Ans::Valid)).await;
            }
            if self.reqs.iter().any(|r| r.got.is_none() && !r.dropped) {
                self.apply(Ev::Tick).await;
            }
            let after = (self.seen_sends, self.reqs.iter().filter(|r| r.got.is_some()).count());
            if before == after && self.outstanding().is_empty() {
                break;
            }
        }
        for (j, r) in self.reqs.iter().enumerate() {
            if r.dropped || r.got.is_some() {
                continue;
            }
            if self.stopped {
                push_viol(&mut self.viol, "no-answer-after-stop", format!("the client was stopped but the caller of r{j} has no answer"));
            } else if r.sends.len() >= 3 {
                push_viol(&mut self.viol, "no-answer-after-final-attempt", format!("r{j} had 3 attempts, all answered, but its caller has no answer"));
            } else if self.needed_peer_connected(r) {
                let snap = self.sys.client.snapshot();
                push_viol(
                    &mut self.viol,
                    "no-answer-although-peer-available",
                    format!(
                        "after a fair tail r{j} (attempts so far {}) has no answer although a {} peer is connected; handler: pending={} ongoing={} interval_armed={}",
                        r.sends.len(),
                        if r.sends.len() >= 2 { "connected archival" } else { "connected" },
                        snap.pending.len(),
                        snap.ongoing.len(),
                        snap.interval_armed
                    ),
                );
            }
        }
    }

    fn class(&self) -> String {
        self.reqs
            .iter()
            .enumerate()
            .map(|(j, r)| {
                let st = match &r.got {
                    Some(g) => g.clone(),
                    None if r.dropped => "dropped".into(),
                    None => "unanswered:no-peer".into(),
                };
                format!("r{j}:{st}")
            })
            .collect::<Vec<_>>()
            .join("+")
    }
}

fn run(pop: &Pop, horizon: usize, prefix: &[u32], keep: bool) -> Exec {
    let res = guard(|| {
        with_rt(async {
            let mut ch = Chooser::new(prefix, keep);
            let mut r = Run::new(pop);
            // prelude: the first caller
            r.new_request();
            r.sys.settle().await;
            r.observe();
            let mut steps = 0u64;
            while (steps as usize) < horizon {
                let m = r.menu();
                let c = ch.choose(m.len(), || m.iter().map(|e| r.label(e)).collect::<Vec<_>>().join(" | "));
                let e = m[c];
                if keep {
                    // replace the menu by the chosen label: shorter replay files
                    if let Some(l) = ch.labels.last_mut() {
                        *l = r.label(&e);
                    }
                }
                r.trace.push(format!("{e:?}"));
                if e == Ev::Idle {
                    break;
                }
                r.apply(e).await;
                steps += 1;
            }
            r.tail_and_liveness().await;
            (ch, r.class(), r.trace, r.viol, steps)
        })
    });
    match res {
        Ok((ch, class, trace, viol, steps)) => {
            // recorder ids inside the trace are deterministic (per-run counter)
            let key = fnv64(trace.join("\n").as_bytes());
            Exec::from_chooser(ch, class, key, viol, steps + 1)
        }
        Err(p) => {
            let mut ch = Chooser::new(prefix, keep);
            // keep the prefix as the taken sequence so that the case can be replayed
            for c in prefix {
                ch.taken.push(*c);
                ch.arity.push(c + 1);
            }
            Exec::from_chooser(ch, "panic", 0, vec![viol("panic", format!("handler panicked: {p}"))], 1)
        }
    }
}

fn populations(per_peer_flags: bool) -> Vec<Pop> {
    let kinds = [Kind::Plain, Kind::Archival, Kind::Trusted];
    let mut opts: Vec<(Kind, bool)> = vec![];
    for k in kinds {
        opts.push((k, true));
        if per_peer_flags {
            opts.push((k, false));
        }
    }
    opts.push((Kind::ArchivalMarked, false));
    let mut out: Vec<Pop> = vec![vec![]];
    // multisets of size 1..=3 over opts
    for n in 1..=3usize {
        let mut idx = vec![0usize; n];
        loop {
            out.push(idx.iter().map(|i| opts[*i]).collect());
            // next non-decreasing tuple
            let mut p = n;
            while p > 0 && idx[p - 1] == opts.len() - 1 {
                p -= 1;
            }
            if p == 0 {
                break;
            }
            let v = idx[p - 1] + 1;
            for q in p - 1..n {
                idx[q] = v;
            }
        }
    }
    if !per_peer_flags {
        // the same populations with every peer initially disconnected
        let disc: Vec<Pop> = out.iter().filter(|p| !p.is_empty()).map(|p| p.iter().map(|(k, _)| (*k, false)).collect()).collect();
        out.extend(disc);
    }
    out.sort();
    out.dedup();
    out.sort_by_key(|p| p.len());
    out
}

fn main() {
    let ctx = Ctx::from_args("C32");
    let _ = fixtures();
    let mut rep = Report::new();
    rep.sample_cap = 8;
    if let Some(c) = ctx.replay_case() {
        let pop = pop_from_json(&c["population"]);
        let horizon = c["horizon"].as_u64().unwrap_or(14) as usize;
        let prefix: Vec<u32> = c["choices"].as_array().expect("choices").iter().map(|x| x.as_u64().unwrap() as u32).collect();
        let x = run(&pop, horizon, &prefix, true);
        if let Some(d) = &x.diverged {
            machinery_error(&ctx.id, d);
        }
        rep.evaluations += 1;
        *rep.classes.entry(x.class.clone()).or_insert(0) += 1;
        for (k, what) in &x.violations {
            rep.violation(k, what.clone(), json!({"population": pop_json(&pop), "horizon": horizon, "choices": x.taken, "labels": x.labels}));
        }
    } else {
        let horizon = ctx.tier.pick(10, 14);
        let bound = ctx.tier.pick(3, 4);
        let pops = populations(!ctx.quick());
        let t0 = std::time::Instant::now();
        let total_cap = std::time::Duration::from_secs(ctx.tier.pick(50, 800));
        let mut per_pop: Vec<Value> = vec![];
        let mut by_dev_total: Vec<u64> = vec![0; bound + 1];
        let mut distinct_traces = 0u64;
        for pop in &pops {
            let left = total_cap.saturating_sub(t0.elapsed());
            if left.is_zero() {
                rep.cap_hit(&format!("wall cap before population {}", pop_json(pop)));
                continue;
            }
            let cfg = DevConfig { bound, wall_cap: left, max_execs: u64::MAX, max_deviation_pos: 0 };
            let mut r = Report::new();
            if rep.violation_count > 0 {
                // smallest violating population first; larger ones add nothing (and a broken
                // handler may pick the offending peer at random there)
                rep.cap_hit(&format!("stopped after the first violating population, before {}", pop_json(pop)));
                continue;
            }
            if let Err(m) = explore_deviations(&cfg, |p, keep| run(pop, horizon, p, keep), &mut r) {
                machinery_error(&ctx.id, &m);
            }
            for v in &mut r.violations {
                v.case["population"] = pop_json(pop);
                v.case["horizon"] = json!(horizon);
            }
            for s in &mut r.samples {
                s["population"] = pop_json(pop);
            }
            if let Some(Value::Array(a)) = r.extras.get("executions_by_deviations") {
                for (i, n) in a.iter().enumerate() {
                    by_dev_total[i] += n.as_u64().unwrap_or(0);
                }
            }
            distinct_traces += r.extras.get("distinct_observation_traces").and_then(|v| v.as_u64()).unwrap_or(0);
            per_pop.push(json!({"population": pop_json(pop), "executions": r.evaluations}));
            r.extras.clear();
            // one sample (the one with most events) from every 5th population
            let mut keep: Vec<Value> = vec![];
            if per_pop.len() % 5 == 2 {
                if let Some(s) = r.samples.iter().max_by_key(|s| s["choices"].as_array().map(|a| a.len()).unwrap_or(0)) {
                    keep.push(s.clone());
                }
            }
            r.samples = keep;
            rep.sample_cap = 64;
            rep.merge_in(r);
        }
        rep.samples.truncate(10);
        rep.extra("distinct_nontrivial_by_construction", json!(by_dev_total.iter().skip(1).sum::<u64>()));
        rep.extra("executions_by_deviations", json!(by_dev_total));
        rep.extra("deviation_bound", json!(bound));
        rep.extra("horizon_events", json!(horizon));
        rep.extra("populations", json!(per_pop));
        rep.extra("distinct_observation_traces", json!(distinct_traces));
    }
    finish(
        &ctx,
        rep,
        Spec {
            rule: "populations: every multiset of 0..=3 peers over kinds {plain, archival, trusted, archival-never-connected = marked archival without any connection, initially disconnected} (quick: all initially connected, and all initially disconnected; thorough: connected/disconnected chosen per peer) x every event sequence of <= 10 (quick) / 14 (thorough) events with <= 3 / 4 non-default choices; events: answer any outstanding send with {valid, NotFound, valid header of the wrong height, outbound failure}, schedule tick (100 ms, schedule runs iff the handler emitted SchedulePendingRequests), second request (range of 2), connect/disconnect any peer, caller drops its receiver, stop; default = honest environment; every execution ends with a fair tail (<= 8 rounds of valid answers + ticks). state = distinct observation trace (events, per-send attempt number / connected / archival, answers); an execution is one trace validated on the real handler; non-trivial = executions with at least one non-default choice",
            assumptions: &[
                "peer choice among eligible peers is random (thread_rng shuffle): the oracle only uses connected/archival of the chosen peer at send time, the observation key never contains peer identities",
                "a disconnect does not by itself fail the peer's outstanding sends (libp2p would report ConnectionClosed): both events are in the alphabet separately, which is a superset",
                "the reply channel is a tokio oneshot: 'at most one value' is enforced by the type; the check decides which value arrives and when (Ok only from a valid response, an error only after the third attempt or Cancelled after stop)",
                "liveness is bounded: 8 fair rounds after the explored prefix",
                "NeedTrustedPeers/NeedArchivalPeers events depend on std::time::Instant and are not part of the oracle",
            ],
            required_classes: &["r0:ok*", "r0:err:not-found*", "r0:err:invalid-response*", "r0:err:outbound-failure*", "r0:err:cancelled*", "r0:unanswered*", "r0:dropped*"],
            exhaustive: true,
        },
    );
}
