//! C41 — Closing the redb store waits for in-flight work without hanging.   (engines E5 + E3)
//!
//! Part 1 (E5, counter level): the real `Counter::wait_guards` (under
//! `shuttle::future::block_on`) against G real `CounterGuard`s dropped by shuttle threads.
//! The `sched_point` hooks placed between the statements of `CounterGuard::drop` and
//! `Counter::wait_guards` call `shuttle::thread::yield_now`, so every shared-memory step of
//! the protocol is preceded by a scheduling point.  *Every* schedule is explored by a
//! depth-first search over scheduler choices (same algorithm as `shuttle::check_dfs`,
//! partitioned by choice prefix so that the sub-trees run on all cores; the schedule count is
//! cross-checked against shuttle's own `DfsScheduler` where that is cheap).
//! Oracle: safety — when `wait_guards` returns every guard has passed its decrement
//! (`guard:after-take`); liveness — no schedule ends with a blocked waiter (shuttle
//! reports a deadlock) or exceeds the step bound (livelock).
//!
//! Part 2 (E3, store level): a real `RedbStore` (in-memory backend), two reads whose
//! `spawn_blocking` tasks are parked by the same hook inside `CounterGuard::drop`
//! (before the decrement / before the notification); the read futures are cancelled, the
//! store is closed, and the parked tasks are released in every order.  Oracle: `close()`
//! has not returned while a task has not yet decremented; it has returned (settled) once
//! both tasks have notified.
use lumina_node::verif::sync::{VCounter, VGuard, set_sched_hook};
use lv_core::*;
use serde::{Deserialize, Serialize};
use serde_json::{Value, json};
use shuttle::scheduler::{Schedule, Scheduler, Task, TaskId};
use std::cell::{Cell, RefCell};
use std::collections::{BTreeMap, HashSet};
use std::future::Future;
use std::pin::pin;
use std::sync::atomic::{AtomicBool, AtomicU64, AtomicUsize, Ordering};
use std::sync::{Arc, Mutex};
use std::task::{Context, Poll};
use std::time::{Duration, Instant};

// ---------------------------------------------------------------------------------------
// hook labels

const LABELS: [&str; 8] = [
    "guard:before-take",  // 0  before `self.counter.take()`
    "guard:after-take",   // 1  between the decrement and `notify_waiters()`
    "guard:after-notify", // 2  after `notify_waiters()` (no shared step follows)
    "wait:start",         // 3  before the first `notified()` is created
    "wait:before-check",  // 4  before every `Arc::strong_count`
    "wait:after-check",   // 5  between the check and the await
    "wait:woken",         // 6  after the wake-up, before the re-arm `notified()`
    "wait:done",          // 7  after the loop (no shared step follows)
];
/// every shared-memory step of the protocol preceded by exactly one scheduling point
const FULL: u32 = 0b0111_1011;
/// FULL minus `guard:before-take`.  In the harness a guard's drop is the first thing its
/// thread does, so that point directly follows a scheduling point shuttle has anyway (the
/// start of the thread) with no shared-memory step in between: it adds schedules but no new
/// order of shared-memory steps.  The quick tier *checks* that claim: for every G <= 2
/// configuration (and G = 3 with 1..2 guards dropped beforehand) the set of distinct orders of
/// shared-memory steps reached under MIN equals the set reached under FULL.
const MIN: u32 = 0b0111_1010;
/// labels that are immediately followed by a shared-memory step (the trace alphabet)
const PRE_OP: u32 = 0b0111_1011;

fn label_bit(l: &str) -> u32 {
    LABELS.iter().position(|x| *x == l).map(|i| 1 << i).unwrap_or(0)
}

// ---------------------------------------------------------------------------------------
// one configuration of the counter-level model

#[derive(Clone, Copy, Debug, Serialize, Deserialize, PartialEq)]
struct Cfg {
    /// guards created before the wait
    guards: usize,
    /// of those, dropped on the waiter's thread before the wait starts
    pre_dropped: usize,
    /// variant: a first `wait_guards` is polled once and cancelled, then one more guard is
    /// created (the only way the `&mut self` receiver lets a guard appear after a wait has
    /// started) and handed to its own thread, then the real wait starts
    rewait: bool,
    /// enabled hook labels (bit i = LABELS[i])
    mask: u32,
}

impl Cfg {
    fn total_guards(&self) -> usize {
        self.guards + self.rewait as usize
    }
    fn name(&self) -> String {
        format!(
            "G={} pre_dropped={} rewait={} points={}",
            self.guards,
            self.pre_dropped,
            self.rewait,
            if self.mask == FULL { "full".to_string() } else if self.mask == MIN { "min".to_string() } else { format!("{:#b}", self.mask) }
        )
    }
}

/// Per-execution observation, owned by the OS thread that runs the shuttle execution
/// (all shuttle threads of one execution are coroutines on that OS thread).
#[derive(Default)]
struct Exec {
    mask: u32,
    role: BTreeMap<usize, usize>, // shuttle task id -> guard index
    took: Vec<bool>,
    started: Vec<bool>,
    log: Vec<(usize, &'static str)>,
    keep_log: bool,
    wakeups: u32,
    /// rolling hash of the order of shared-memory steps: (role, label) of every PRE_OP label,
    /// taken *after* the yield, i.e. immediately before the step executes
    trace: u64,
}

#[derive(Default)]
struct PartStats {
    classes: BTreeMap<String, u64>,
    blocked_execs: u64,
    traces: HashSet<u64>,
}

/// Whether executions record their order of shared-memory steps (off for the one
/// configuration whose 10^7 distinct orders would only cost memory).
static COLLECT_TRACES: AtomicBool = AtomicBool::new(true);

thread_local! {
    static IN_SHUTTLE: Cell<bool> = const { Cell::new(false) };
    static EX: RefCell<Exec> = RefCell::new(Exec::default());
    static STATS: RefCell<PartStats> = RefCell::new(PartStats::default());
}

/// The process-wide sched hook.  On a thread that runs a shuttle execution: record + yield.
/// Elsewhere: the store-level gate (part 2), or nothing.
fn hook(label: &'static str) {
    if IN_SHUTTLE.with(|c| c.get()) {
        let me: usize = shuttle::current::me().into();
        let bit = label_bit(label);
        let yield_here = EX.with(|e| {
            let mut e = e.borrow_mut();
            if label == "guard:after-take" {
                // the decrement of this guard is complete
                if let Some(i) = e.role.get(&me).copied() {
                    e.took[i] = true;
                }
            }
            if label == "wait:woken" {
                e.wakeups += 1;
            }
            e.mask & bit != 0
        });
        if yield_here {
            shuttle::thread::yield_now();
        }
        // from here to the shared-memory step that follows the label there is no scheduling point
        EX.with(|e| {
            let mut e = e.borrow_mut();
            if e.keep_log {
                e.log.push((me, label));
            }
            if bit & PRE_OP != 0 {
                let role = e.role.get(&me).copied().unwrap_or(0xff) as u64;
                let mut h = e.trace ^ (role << 8 | bit as u64);
                h = h.wrapping_mul(0x100000001b3);
                e.trace = h ^ (h >> 29);
            }
        });
    } else {
        gate_hook(label);
    }
}

fn drop_guard_as(i: usize, g: VGuard) {
    let me: usize = shuttle::current::me().into();
    EX.with(|e| {
        let mut e = e.borrow_mut();
        e.role.insert(me, i);
        e.started[i] = true;
    });
    drop(g);
    EX.with(|e| {
        e.borrow_mut().role.remove(&me);
    });
}

/// One execution of the model (called once per schedule by the shuttle runner).
fn model(cfg: Cfg, keep_log: bool) {
    let n = cfg.total_guards();
    EX.with(|e| {
        *e.borrow_mut() = Exec {
            mask: cfg.mask,
            took: vec![false; n],
            started: vec![false; n],
            keep_log,
            ..Default::default()
        }
    });
    let mut counter = VCounter::new();
    let mut guards: Vec<(usize, VGuard)> = (0..cfg.guards).map(|i| (i, counter.guard())).collect();
    // guards dropped before the wait starts, on this thread
    for (i, g) in guards.drain(..cfg.pre_dropped) {
        drop_guard_as(i, g);
    }
    let mut handles = vec![];
    for (i, g) in guards {
        handles.push(shuttle::thread::spawn(move || drop_guard_as(i, g)));
    }
    if cfg.rewait {
        {
            let waker = futures::task::noop_waker();
            let mut cx = Context::from_waker(&waker);
            let mut first = pin!(counter.wait_guards());
            let _ = first.as_mut().poll(&mut cx);
            // cancelled here
        }
        let i = cfg.guards;
        let g = counter.guard();
        handles.push(shuttle::thread::spawn(move || drop_guard_as(i, g)));
    }
    shuttle::future::block_on(counter.wait_guards());
    // safety oracle, evaluated at the instant wait_guards returns
    let bad = EX.with(|e| {
        let e = e.borrow();
        (0..n).find(|i| !e.took[*i]).map(|i| (i, e.started[i]))
    });
    if let Some((i, started)) = bad {
        panic!(
            "SAFETY: wait_guards returned while guard {i} had not decremented (its drop had {})",
            if started { "started" } else { "not started" }
        );
    }
    for h in handles {
        h.join().unwrap();
    }
    let (wakeups, trace) = EX.with(|e| (e.borrow().wakeups, e.borrow().trace));
    STATS.with(|s| {
        let mut s = s.borrow_mut();
        if COLLECT_TRACES.load(Ordering::Relaxed) {
            s.traces.insert(trace);
        }
        let class = match wakeups {
            0 => "returned:without-blocking".to_string(),
            k => format!("returned:after-{k}-wakeups"),
        };
        *s.classes.entry(class).or_insert(0) += 1;
        if wakeups > 0 {
            s.blocked_execs += 1;
        }
    });
}

// ---------------------------------------------------------------------------------------
// E5 scheduler: DFS over choice indices with a fixed prefix (partition) and an optional
// exploration depth limit (used to enumerate the partitions)

#[derive(Default)]
struct Shared {
    /// choices (index into the runnable list) and arities of the current execution
    cur: Vec<(u32, u32)>,
    executions: u64,
    steps: u64,
    /// prefixes seen in enumeration mode
    prefixes: Vec<Vec<u32>>,
    nondeterminism: Option<String>,
    max_len: usize,
}

struct PartDfs {
    fixed: Vec<u32>,
    /// levels at index >= limit always take choice 0 and are not explored (None = unlimited)
    limit: Option<usize>,
    levels: Vec<(u32, u32)>,
    step: usize,
    started: bool,
    shared: Arc<Mutex<Shared>>,
    stop: Arc<AtomicBool>,
}

impl PartDfs {
    fn new(fixed: Vec<u32>, limit: Option<usize>, shared: Arc<Mutex<Shared>>, stop: Arc<AtomicBool>) -> Self {
        PartDfs { fixed, limit, levels: vec![], step: 0, started: false, shared, stop }
    }
    fn finish_execution(&mut self) {
        if !self.started {
            return;
        }
        let mut sh = self.shared.lock().unwrap();
        sh.max_len = sh.max_len.max(self.step);
        if let Some(l) = self.limit {
            let p: Vec<u32> = self.levels.iter().take(l).map(|x| x.0).collect();
            sh.prefixes.push(p);
        }
    }
}

impl Scheduler for PartDfs {
    fn new_execution(&mut self) -> Option<Schedule> {
        self.finish_execution();
        if self.stop.load(Ordering::Relaxed) {
            return None;
        }
        if self.started {
            if let Some(l) = self.limit {
                self.levels.truncate(l);
            }
            // deepest explorable level with an untried alternative
            let lo = self.fixed.len();
            let mut found = None;
            for i in (lo..self.levels.len()).rev() {
                if self.levels[i].0 + 1 < self.levels[i].1 {
                    found = Some(i);
                    break;
                }
            }
            let i = found?;
            self.levels.truncate(i + 1);
            self.levels[i].0 += 1;
        }
        self.started = true;
        self.step = 0;
        let mut sh = self.shared.lock().unwrap();
        sh.executions += 1;
        sh.cur.clear();
        Some(Schedule::new(0))
    }

    fn next_task(&mut self, runnable: &[&Task], _current: Option<TaskId>, _is_yielding: bool) -> Option<TaskId> {
        let n = runnable.len() as u32;
        let i = self.step;
        let c = if i < self.levels.len() {
            if self.levels[i].1 != n {
                let mut sh = self.shared.lock().unwrap();
                sh.nondeterminism = Some(format!("step {i}: {} runnable tasks, {} when first seen", n, self.levels[i].1));
                return None;
            }
            self.levels[i].0
        } else {
            let c = if i < self.fixed.len() { self.fixed[i] } else { 0 };
            if c >= n {
                let mut sh = self.shared.lock().unwrap();
                sh.nondeterminism = Some(format!("step {i}: fixed choice {c} of {n}"));
                return None;
            }
            self.levels.push((c, n));
            c
        };
        self.step += 1;
        let mut sh = self.shared.lock().unwrap();
        sh.steps += 1;
        sh.cur.push((c, n));
        Some(runnable[c as usize].id())
    }

    fn next_u64(&mut self) -> u64 {
        panic!("the model requests no random data");
    }
}

fn shuttle_config() -> shuttle::Config {
    let mut c = shuttle::Config::new();
    c.stack_size = 0x40000;
    c.failure_persistence = shuttle::FailurePersistence::None;
    c.max_steps = shuttle::MaxSteps::FailAfter(20_000);
    c.silence_warnings = true;
    c
}

struct RunOut {
    executions: u64,
    steps: u64,
    prefixes: Vec<Vec<u32>>,
    max_len: usize,
    /// panic message + the choices of the failing execution
    failure: Option<(String, Vec<u32>)>,
    nondeterminism: Option<String>,
}

/// Runs the model under one `PartDfs` on the current OS thread.
fn run_part(cfg: Cfg, fixed: Vec<u32>, limit: Option<usize>, keep_log: bool, stop: Arc<AtomicBool>) -> RunOut {
    let shared = Arc::new(Mutex::new(Shared::default()));
    let sched = PartDfs::new(fixed, limit, shared.clone(), stop);
    let runner = shuttle::Runner::new(sched, shuttle_config());
    IN_SHUTTLE.with(|c| c.set(true));
    let r = guard(|| runner.run(move || model(cfg, keep_log)));
    IN_SHUTTLE.with(|c| c.set(false));
    let mut sh = shared.lock().unwrap();
    let failure = r.err().map(|msg| (msg, sh.cur.iter().map(|x| x.0).collect()));
    // in enumeration mode the last execution's prefix is pushed by the final new_execution call;
    // after a failure that call never happens, which is fine (the run stops anyway)
    RunOut {
        executions: sh.executions,
        steps: sh.steps,
        prefixes: std::mem::take(&mut sh.prefixes),
        max_len: sh.max_len,
        failure,
        nondeterminism: sh.nondeterminism.take(),
    }
}

fn classify(msg: &str) -> (&'static str, String) {
    if msg.contains("SAFETY") {
        ("close-returned-before-task-finished", msg.to_string())
    } else if msg.contains("deadlock") {
        (
            "close-hangs-after-all-tasks-finished",
            format!("every guard was dropped but wait_guards stays blocked (lost wake-up): {msg}"),
        )
    } else if msg.contains("exceeded max_steps") || msg.contains("max_steps") {
        ("close-spins-without-returning", format!("step bound exceeded (livelock): {msg}"))
    } else {
        ("panic", format!("panic inside the counter protocol: {msg}"))
    }
}

/// Replays one schedule (choice indices) with the event log on; returns the failure, the log.
fn replay_choices(cfg: Cfg, choices: &[u32]) -> (Option<String>, Vec<String>, Option<String>) {
    let stop = Arc::new(AtomicBool::new(false));
    // fixed prefix = the whole schedule, exploration limit 0 => exactly one execution
    let out = run_part(cfg, choices.to_vec(), Some(0), true, stop);
    let log = EX.with(|e| e.borrow().log.iter().map(|(t, l)| format!("t{t}:{l}")).collect());
    (out.failure.map(|f| f.0), log, out.nondeterminism)
}

struct CfgResult {
    schedules: u64,
    steps: u64,
    partitions: usize,
    max_len: usize,
    stats: PartStats,
    failure: Option<(String, Vec<u32>)>,
    machinery: Option<String>,
    capped: bool,
}

/// Explores every schedule of `cfg`: enumerate the choice prefixes of length `depth`, then
/// run the DFS below every prefix on `threads` OS threads.
fn explore_cfg(cfg: Cfg, depth: usize, threads: usize, deadline: Instant) -> CfgResult {
    let stop = Arc::new(AtomicBool::new(false));
    STATS.with(|s| *s.borrow_mut() = PartStats::default());
    let en = run_part(cfg, vec![], Some(depth), false, stop.clone());
    // the enumeration pass runs real executions too, but they are re-run (and counted) below
    STATS.with(|s| *s.borrow_mut() = PartStats::default());
    let mut res = CfgResult {
        schedules: 0,
        steps: 0,
        partitions: en.prefixes.len(),
        max_len: 0,
        stats: PartStats::default(),
        failure: None,
        machinery: en.nondeterminism.clone(),
        capped: false,
    };
    if let Some(f) = en.failure {
        // a failure met while enumerating is a failing schedule like any other
        res.failure = Some(f);
        return res;
    }
    let prefixes = en.prefixes;
    {
        let mut sorted = prefixes.clone();
        sorted.sort();
        sorted.dedup();
        if sorted.len() != prefixes.len() {
            res.machinery = Some("partition prefixes are not distinct".into());
            return res;
        }
    }
    let next = AtomicUsize::new(0);
    let acc = Mutex::new(res);
    std::thread::scope(|sc| {
        for _ in 0..threads.min(prefixes.len()).max(1) {
            sc.spawn(|| {
                loop {
                    let i = next.fetch_add(1, Ordering::Relaxed);
                    if i >= prefixes.len() || stop.load(Ordering::Relaxed) {
                        break;
                    }
                    if Instant::now() > deadline {
                        stop.store(true, Ordering::Relaxed);
                        acc.lock().unwrap().capped = true;
                        break;
                    }
                    STATS.with(|s| *s.borrow_mut() = PartStats::default());
                    let out = run_part(cfg, prefixes[i].clone(), None, false, stop.clone());
                    let st = STATS.with(|s| std::mem::take(&mut *s.borrow_mut()));
                    let mut a = acc.lock().unwrap();
                    a.schedules += out.executions;
                    a.steps += out.steps;
                    a.max_len = a.max_len.max(out.max_len);
                    for (k, v) in st.classes {
                        *a.stats.classes.entry(k).or_insert(0) += v;
                    }
                    a.stats.blocked_execs += st.blocked_execs;
                    a.stats.traces.extend(st.traces);
                    if let Some(nd) = out.nondeterminism {
                        a.machinery.get_or_insert(nd);
                        stop.store(true, Ordering::Relaxed);
                    }
                    if let Some(f) = out.failure {
                        // keep the failure of the lowest partition (DFS order) for stability
                        if a.failure.is_none() {
                            a.failure = Some(f);
                        }
                        stop.store(true, Ordering::Relaxed);
                    }
                }
            });
        }
    });
    acc.into_inner().unwrap()
}

/// Schedule count according to shuttle's own `DfsScheduler` (what `shuttle::check_dfs` runs).
fn shuttle_dfs_count(cfg: Cfg) -> Result<u64, String> {
    let runner = shuttle::Runner::new(shuttle::scheduler::DfsScheduler::new(None, false), shuttle_config());
    IN_SHUTTLE.with(|c| c.set(true));
    let r = guard(|| runner.run(move || model(cfg, false)));
    IN_SHUTTLE.with(|c| c.set(false));
    r.map(|n| n as u64)
}

// ---------------------------------------------------------------------------------------
// Part 2: store level (E3)

mod store_level {
    use super::*;
    use lumina_node::store::{RedbStore, Store};
    use std::sync::mpsc::{Receiver, Sender, channel};

    /// how long the harness waits for one acknowledgement / for close() to finish
    pub const STEP_TIMEOUT: Duration = Duration::from_secs(5);
    /// how long a blocking-pool thread stays parked at most (it is normally released by the harness)
    const PARK_TIMEOUT: Duration = Duration::from_secs(20);
    /// hard limit for one event order, enforced by a watchdog thread
    pub const ORDER_TIMEOUT: Duration = Duration::from_secs(40);

    #[derive(Clone, Copy, Debug, Serialize, Deserialize, PartialEq, Eq)]
    pub enum Op {
        /// `Store::head_height` (read_tx)
        Read,
        /// `Store::mark_as_sampled(1)` (write_tx)
        Write,
    }

    #[derive(Clone, Copy, Debug, Serialize, Deserialize, PartialEq, Eq)]
    pub enum Ev {
        /// call `close()` (spawned as a task on the runtime)
        Close,
        /// coarse: release task i from `redb:tx-start`; it runs to the end of its closure
        Finish(usize),
        /// fine: release task i from `redb:tx-start`; it runs its transaction and then parks
        /// before the decrement inside `CounterGuard::drop`
        Run(usize),
        /// fine: release task i up to (and including) its decrement
        Take(usize),
        /// fine: release task i's `notify_waiters`
        Notify(usize),
    }

    /// What blocking-pool threads that execute a read_tx/write_tx closure do at the hook points.
    pub struct Gates {
        fine: bool,
        arrivals: AtomicUsize,
        arrived_tx: Mutex<Sender<usize>>,
        release_start: Vec<Mutex<Receiver<()>>>,
        release_take: Vec<Mutex<Receiver<()>>>,
        release_notify: Vec<Mutex<Receiver<()>>>,
        ack_tx: Mutex<Sender<(usize, &'static str)>>,
    }

    pub static GATES: Mutex<Option<Arc<Gates>>> = Mutex::new(None);
    thread_local! {
        /// Set at `redb:tx-start` on the blocking-pool thread that executes gated closure i.
        /// Only threads with this mark are ever parked.
        static MY_TASK: Cell<Option<usize>> = const { Cell::new(None) };
    }

    fn park(rx: &Mutex<Receiver<()>>) {
        // Err(Disconnected) = the harness is tearing down; Err(Timeout) = safety net
        let _ = rx.lock().unwrap().recv_timeout(PARK_TIMEOUT);
    }

    pub fn gate(label: &'static str) {
        let Some(g) = GATES.lock().unwrap().clone() else { return };
        match label {
            "redb:tx-start" => {
                let i = g.arrivals.fetch_add(1, Ordering::SeqCst);
                if i >= g.release_start.len() {
                    g.arrivals.fetch_sub(1, Ordering::SeqCst);
                    MY_TASK.with(|m| m.set(None));
                    return;
                }
                MY_TASK.with(|m| m.set(Some(i)));
                let _ = g.arrived_tx.lock().unwrap().send(i);
                park(&g.release_start[i]);
            }
            "redb:tx-end" => {
                if let Some(i) = MY_TASK.with(|m| m.get()) {
                    let _ = g.ack_tx.lock().unwrap().send((i, "db-done"));
                    if !g.fine {
                        MY_TASK.with(|m| m.set(None));
                    }
                }
            }
            "guard:before-take" if g.fine => {
                if let Some(i) = MY_TASK.with(|m| m.get()) {
                    park(&g.release_take[i]);
                }
            }
            "guard:after-take" if g.fine => {
                if let Some(i) = MY_TASK.with(|m| m.get()) {
                    let _ = g.ack_tx.lock().unwrap().send((i, "took"));
                    park(&g.release_notify[i]);
                }
            }
            "guard:after-notify" if g.fine => {
                if let Some(i) = MY_TASK.with(|m| m.take()) {
                    let _ = g.ack_tx.lock().unwrap().send((i, "notified"));
                }
            }
            _ => {}
        }
    }

    /// All orders of the events (fine: Run(i) < Take(i) < Notify(i)), the ones that call
    /// close() earliest first.
    pub fn orders(tasks: usize, fine: bool) -> Vec<Vec<Ev>> {
        let mut evs = vec![Ev::Close];
        for i in 0..tasks {
            if fine {
                evs.extend([Ev::Run(i), Ev::Take(i), Ev::Notify(i)]);
            } else {
                evs.push(Ev::Finish(i));
            }
        }
        let pos = |s: &[Ev], e: Ev| s.iter().position(|x| *x == e).unwrap();
        let mut out = vec![];
        for p in permutations(evs.len()) {
            let seq: Vec<Ev> = p.iter().map(|i| evs[*i]).collect();
            let ok = !fine
                || (0..tasks).all(|t| pos(&seq, Ev::Run(t)) < pos(&seq, Ev::Take(t)) && pos(&seq, Ev::Take(t)) < pos(&seq, Ev::Notify(t)));
            if ok {
                out.push(seq);
            }
        }
        out.sort_by_key(|s| pos(s, Ev::Close));
        out
    }

    pub struct Outcome {
        pub class: String,
        pub violations: Vec<(String, String)>,
        pub events: u64,
    }

    fn expect_ack(rx: &Receiver<(usize, &'static str)>, i: usize, what: &'static str) {
        match rx.recv_timeout(STEP_TIMEOUT) {
            Ok((j, w)) if j == i && w == what => {}
            other => panic!("harness protocol: task {i}: expected acknowledgement {what:?}, got {other:?}"),
        }
    }

    /// Runs one event order against a fresh store.  Must not run concurrently with another
    /// instance (the gate is process-wide).
    pub fn run_order(ops: &[Op], fine: bool, seq: &[Ev]) -> Outcome {
        let rt = tokio::runtime::Builder::new_current_thread().enable_all().max_blocking_threads(8).build().unwrap();
        let tasks = ops.len();
        let mut violations = vec![];
        let mut events = 0u64;
        let class = rt.block_on(async {
            *GATES.lock().unwrap() = None;
            let store = RedbStore::in_memory().await.expect("in-memory redb store");
            let (arrived_tx, arrived_rx) = channel();
            let (ack_tx, ack_rx) = channel();
            let mk = |n: usize| {
                let mut txs = vec![];
                let mut rxs = vec![];
                for _ in 0..n {
                    let (a, b) = channel::<()>();
                    txs.push(a);
                    rxs.push(Mutex::new(b));
                }
                (txs, rxs)
            };
            let (rel_start, rs) = mk(tasks);
            let (rel_take, rt_) = mk(tasks);
            let (rel_notify, rn) = mk(tasks);
            *GATES.lock().unwrap() = Some(Arc::new(Gates {
                fine,
                arrivals: AtomicUsize::new(0),
                arrived_tx: Mutex::new(arrived_tx),
                release_start: rs,
                release_take: rt_,
                release_notify: rn,
                ack_tx: Mutex::new(ack_tx),
            }));
            // Start the operations one by one: poll the future once (that spawns the blocking
            // closure), wait until the closure is parked at `redb:tx-start`, then cancel the
            // operation by dropping its future.  The closure has started; its database work
            // has not.
            for (i, op) in ops.iter().enumerate() {
                let waker = futures::task::noop_waker();
                let mut cx = Context::from_waker(&waker);
                match op {
                    Op::Read => {
                        let mut f = pin!(store.head_height());
                        let _ = f.as_mut().poll(&mut cx);
                        match arrived_rx.recv_timeout(STEP_TIMEOUT) {
                            Ok(j) if j == i => {}
                            other => panic!("harness protocol: blocking closure of read {i} did not reach redb:tx-start: {other:?}"),
                        }
                    }
                    Op::Write => {
                        let mut f = pin!(store.mark_as_sampled(1));
                        let _ = f.as_mut().poll(&mut cx);
                        match arrived_rx.recv_timeout(STEP_TIMEOUT) {
                            Ok(j) if j == i => {}
                            other => panic!("harness protocol: blocking closure of write {i} did not reach redb:tx-start: {other:?}"),
                        }
                    }
                }
            }
            // reference state, from the statement
            let mut db_done = vec![false; tasks]; // the closure's transaction has finished
            let mut took = vec![false; tasks];
            let mut notified = vec![false; tasks];
            let mut close: Option<tokio::task::JoinHandle<bool>> = None;
            let mut store = Some(store);
            let mut returned_at: Option<usize> = None;
            for (pos, ev) in seq.iter().enumerate() {
                events += 1;
                match *ev {
                    Ev::Close => {
                        let s = store.take().unwrap();
                        close = Some(tokio::spawn(async move { s.close().await.is_ok() }));
                    }
                    Ev::Finish(i) | Ev::Run(i) => {
                        let _ = rel_start[i].send(());
                        expect_ack(&ack_rx, i, "db-done");
                        db_done[i] = true;
                    }
                    Ev::Take(i) => {
                        let _ = rel_take[i].send(());
                        expect_ack(&ack_rx, i, "took");
                        took[i] = true;
                    }
                    Ev::Notify(i) => {
                        let _ = rel_notify[i].send(());
                        expect_ack(&ack_rx, i, "notified");
                        notified[i] = true;
                    }
                }
                let all_finished = if fine { notified.iter().all(|b| *b) } else { db_done.iter().all(|b| *b) };
                // settle: more yields than tokio's global-queue interval, so a wake-up sent from a
                // blocking thread is certainly picked up; once every task has finished, close()
                // gets real time to return (the tail of a closure after `redb:tx-end` is not gated)
                let t0 = Instant::now();
                loop {
                    for _ in 0..64 {
                        tokio::task::yield_now().await;
                    }
                    let done = close.as_ref().is_some_and(|h| h.is_finished());
                    if done || close.is_none() || !all_finished || t0.elapsed() > STEP_TIMEOUT {
                        break;
                    }
                    tokio::time::sleep(Duration::from_millis(1)).await;
                }
                if let Some(h) = &close {
                    let done = h.is_finished();
                    if done && returned_at.is_none() {
                        returned_at = Some(pos);
                    }
                    if done && !db_done.iter().all(|b| *b) {
                        violations.push(viol(
                            "store-close-returned-while-transaction-running",
                            format!(
                                "after {ev:?} (event {pos}) close() has returned although the blocking closures of operations {:?} ({ops:?}) have started and not finished their transaction (their futures were dropped)",
                                (0..tasks).filter(|i| !db_done[*i]).collect::<Vec<_>>()
                            ),
                        ));
                    } else if done && fine && !took.iter().all(|b| *b) {
                        violations.push(viol(
                            "store-close-returned-before-task-finished",
                            format!("after {ev:?} (event {pos}) close() has returned but decrements done = {took:?}"),
                        ));
                    }
                    if !done && all_finished {
                        violations.push(viol(
                            "store-close-hangs-after-all-tasks-finished",
                            format!("after {ev:?} (event {pos}) every blocking task has finished but close() has not returned within {STEP_TIMEOUT:?}"),
                        ));
                    }
                }
                if !violations.is_empty() {
                    break; // the rest of the order would only produce protocol noise
                }
            }
            *GATES.lock().unwrap() = None;
            if let Some(h) = close {
                if h.is_finished() {
                    if !h.await.unwrap_or(false) {
                        violations.push(viol("store-close-error", "close() returned an error".to_string()));
                    }
                } else {
                    h.abort();
                }
            }
            // dropping the release senders (end of this block) wakes every thread still parked
            match returned_at {
                Some(p) => format!(
                    "store:close-returned-after-{}",
                    match seq[p] {
                        Ev::Close => "close-call",
                        Ev::Finish(_) | Ev::Run(_) => "transaction-end",
                        Ev::Take(_) => "decrement",
                        Ev::Notify(_) => "notification",
                    }
                ),
                None => "store:close-not-returned".to_string(),
            }
        });
        drop(rt);
        Outcome { class, violations, events }
    }

    /// `run_order` under a watchdog: a hang of any kind ends the process with a machinery
    /// error after `ORDER_TIMEOUT` instead of blocking the check.
    pub fn run_order_guarded(id: &str, ops: &[Op], fine: bool, seq: &[Ev]) -> Outcome {
        let (tx, rx) = channel();
        let (o, s) = (ops.to_vec(), seq.to_vec());
        std::thread::spawn(move || {
            let _ = tx.send(guard(|| run_order(&o, fine, &s)));
        });
        match rx.recv_timeout(ORDER_TIMEOUT) {
            Ok(Ok(out)) => out,
            Ok(Err(p)) => machinery_error(id, &format!("store-level run {ops:?} fine={fine} {seq:?} failed: {p}")),
            Err(_) => machinery_error(id, &format!("store-level run {ops:?} fine={fine} {seq:?} hung for {ORDER_TIMEOUT:?}")),
        }
    }

    /// (operations, fine-grained?) in the order they are explored
    pub fn plans(thorough: bool) -> Vec<(Vec<Op>, bool)> {
        use Op::*;
        let singles = vec![vec![Read], vec![Write]];
        let pairs = vec![vec![Read, Read], vec![Read, Write], vec![Write, Read], vec![Write, Write]];
        let mut v = vec![];
        for o in singles.iter().chain(&pairs) {
            v.push((o.clone(), false));
        }
        for o in &singles {
            v.push((o.clone(), true));
        }
        for o in &pairs {
            if thorough || *o == vec![Read, Write] {
                v.push((o.clone(), true));
            }
        }
        v
    }
}

fn gate_hook(label: &'static str) {
    store_level::gate(label);
}

// ---------------------------------------------------------------------------------------

/// (configuration, partition depth, comparison group): configurations of one group differ only in
/// the hook-point set and must reach the same set of shared-memory step orders.
const GROUP_G3: u32 = 11;

fn configs(tier: Tier) -> Vec<(Cfg, usize, Option<u32>)> {
    if let Ok(s) = std::env::var("C41_ONLY") {
        // measurement aid: "guards,pre_dropped,rewait(0|1),mask,depth"
        let f: Vec<u32> = s.split(',').map(|x| x.trim().parse().expect("C41_ONLY field")).collect();
        let cfg = Cfg { guards: f[0] as usize, pre_dropped: f[1] as usize, rewait: f[2] != 0, mask: f[3] };
        return vec![(cfg, f[4] as usize, None)];
    }
    let mut v = vec![];
    let mut group = 0u32;
    let mut both = |v: &mut Vec<(Cfg, usize, Option<u32>)>, guards: usize, pre_dropped: usize, rewait: bool, masks: &[u32], depth: usize| {
        group += 1;
        for m in masks {
            v.push((Cfg { guards, pre_dropped, rewait, mask: *m }, depth, Some(group)));
        }
    };
    for g in 0..=2usize {
        for p in 0..=g {
            // G=2, p=0 additionally with all eight labels as scheduling points
            let masks: &[u32] = if g == 2 && p == 0 { &[FULL, MIN, 0xff] } else if g == 1 && p == 0 { &[FULL, MIN, 0xff] } else { &[FULL, MIN] };
            both(&mut v, g, p, false, masks, 6);
        }
    }
    for g in 0..=1usize {
        both(&mut v, g, 0, true, &[FULL, MIN], 6);
    }
    both(&mut v, 3, 2, false, &[FULL, MIN], 6);
    both(&mut v, 3, 1, false, &[FULL, MIN], 8);
    // measured: 290 073 schedules / 46 368 orders
    both(&mut v, 3, 0, false, &[MIN], 10);
    let g3 = v.last().unwrap().2;
    assert_eq!(g3, Some(GROUP_G3));
    // measured: 575 721 schedules / 114 720 orders
    both(&mut v, 2, 0, true, &[MIN], 10);
    if tier == Tier::Thorough {
        for p in (1..=3).rev() {
            both(&mut v, 4, p, false, &[MIN], 10);
        }
        // measured: 64 424 571 schedules, the same 46 368 orders as MIN (checked again here)
        v.push((Cfg { guards: 3, pre_dropped: 0, rewait: false, mask: FULL }, 12, Some(GROUP_G3)));
        // measured: 147 943 178 schedules / 10 721 520 orders
        v.push((Cfg { guards: 4, pre_dropped: 0, rewait: false, mask: MIN }, 12, None));
    }
    v
}

fn report_failure(rep: &mut Report, cfg: Cfg, msg: &str, choices: &[u32]) -> Result<(), String> {
    // replay twice before reporting
    let (a, log, nd1) = replay_choices(cfg, choices);
    let (b, _, nd2) = replay_choices(cfg, choices);
    if let Some(nd) = nd1.or(nd2) {
        return Err(format!("replay of failing schedule diverged: {nd}"));
    }
    let (ka, kb) = (a.as_deref().map(|m| classify(m).0), b.as_deref().map(|m| classify(m).0));
    let k0 = classify(msg).0;
    if ka != Some(k0) || kb != Some(k0) {
        return Err(format!("non-deterministic replay of failing schedule {choices:?}: {k0} / {ka:?} / {kb:?}"));
    }
    let (key, what) = classify(msg);
    rep.violation(
        key,
        format!("{} [{}] events: {}", what, cfg.name(), log.join(" ")),
        json!({"part": "counter", "cfg": cfg, "choices": choices}),
    );
    Ok(())
}

fn main() {
    let ctx = Ctx::from_args("C41");
    set_sched_hook(Some(hook));
    let mut rep = Report::new();
    let threads = std::thread::available_parallelism().map(|n| n.get()).unwrap_or(8);

    if let Some(c) = ctx.replay_case() {
        if c["part"] == "counter" {
            let cfg: Cfg = serde_json::from_value(c["cfg"].clone()).unwrap();
            let choices: Vec<u32> = serde_json::from_value(c["choices"].clone()).unwrap();
            let (fail, log, nd) = replay_choices(cfg, &choices);
            if let Some(nd) = nd {
                machinery_error(&ctx.id, &format!("replay diverged: {nd}"));
            }
            rep.case_nokey(if fail.is_some() { "failed" } else { "returned" });
            if let Some(msg) = fail {
                let (key, what) = classify(&msg);
                rep.violation(key, format!("{} [{}] events: {}", what, cfg.name(), log.join(" ")), c.clone());
            }
        } else {
            let ops: Vec<store_level::Op> = serde_json::from_value(c["ops"].clone()).unwrap();
            let fine = c["fine"].as_bool().unwrap_or(false);
            let seq: Vec<store_level::Ev> = serde_json::from_value(c["order"].clone()).unwrap();
            let out = store_level::run_order_guarded(&ctx.id, &ops, fine, &seq);
            rep.case_nokey(&out.class);
            for (k, w) in out.violations {
                rep.violation(&k, w, c.clone());
            }
        }
        finish(&ctx, rep, spec());
    }

    // ---- part 2 (store level) runs first: thread creation and mmap get an order of magnitude
    // slower in this process after the millions of shuttle executions of part 1
    {
        let t0 = Instant::now();
        let mut store_runs = 0u64;
        let mut store_events = 0u64;
        'outer: for (ops, fine) in store_level::plans(!ctx.quick()) {
            for seq in store_level::orders(ops.len(), fine) {
                if t0.elapsed() > Duration::from_secs(ctx.tier.pick(25, 120)) {
                    rep.cap_hit("store-level wall cap");
                    break 'outer;
                }
                let out = store_level::run_order_guarded(&ctx.id, &ops, fine, &seq);
                store_runs += 1;
                store_events += out.events;
                rep.case_nokey(&out.class);
                let case = json!({"part": "store", "ops": ops, "fine": fine, "order": seq});
                if rep.samples.len() < 10 && store_runs % 23 == 1 {
                    rep.samples.push(json!({"case": case, "class": out.class}));
                }
                let bad = !out.violations.is_empty();
                for (k, w) in out.violations {
                    rep.violation(&k, w, case.clone());
                }
                if bad {
                    break 'outer; // simplest-first: the first failing order is the counterexample
                }
            }
        }
        rep.states += store_runs;
        rep.transitions += store_events;
        rep.traces += store_runs;
        rep.extra("store_level_orders", json!(store_runs));
        rep.extra("store_level_wall_s", json!(t0.elapsed().as_secs_f64()));
    }

    // ---- part 1
    let budget = Duration::from_secs(
        std::env::var("C41_BUDGET_S").ok().and_then(|s| s.parse().ok()).unwrap_or(ctx.tier.pick(55, 780)),
    );
    let deadline = Instant::now() + budget;
    let mut per_cfg = vec![];
    let mut total_schedules = 0u64;
    let mut total_steps = 0u64;
    let mut nontrivial = 0u64;
    let mut group_traces: BTreeMap<u32, (String, HashSet<u64>)> = BTreeMap::new();
    let mut distinct_orders = 0u64;
    for (cfg, depth, group) in configs(ctx.tier) {
        let t0 = Instant::now();
        COLLECT_TRACES.store(group.is_some() || std::env::var("C41_ONLY").is_ok(), Ordering::Relaxed);
        let r = explore_cfg(cfg, depth, threads, deadline);
        if let Some(m) = &r.machinery {
            machinery_error(&ctx.id, &format!("{}: {m}", cfg.name()));
        }
        if r.capped {
            rep.cap_hit(&format!("wall cap during {}", cfg.name()));
        }
        total_schedules += r.schedules;
        total_steps += r.steps;
        nontrivial += r.stats.blocked_execs;
        for (k, v) in &r.stats.classes {
            *rep.classes.entry(k.clone()).or_insert(0) += v;
        }
        rep.evaluations += r.schedules;
        rep.max_depth = rep.max_depth.max(r.max_len as u64);
        // cross-check the schedule count against shuttle's own DFS where that is cheap
        let mut shuttle_count = Value::Null;
        if r.failure.is_none() && !r.capped && r.schedules <= 300_000 {
            match shuttle_dfs_count(cfg) {
                Ok(n) => {
                    shuttle_count = json!(n);
                    if n != r.schedules {
                        machinery_error(
                            &ctx.id,
                            &format!("{}: partitioned DFS ran {} schedules, shuttle's DfsScheduler {}", cfg.name(), r.schedules, n),
                        );
                    }
                    // STATS of this thread were touched by the cross-check; reset
                    STATS.with(|s| *s.borrow_mut() = PartStats::default());
                }
                Err(e) => machinery_error(&ctx.id, &format!("{}: shuttle DFS cross-check failed: {e}", cfg.name())),
            }
        }
        if std::env::var("C41_ONLY").is_ok() {
            println!("MEASURE {} schedules={} steps={} orders={} capped={} wall={:.1}", cfg.name(), r.schedules, r.steps, r.stats.traces.len(), r.capped, t0.elapsed().as_secs_f64());
        }
        per_cfg.push(json!({
            "cfg": cfg.name(), "schedules": r.schedules, "scheduling_steps": r.steps, "partitions": r.partitions,
            "longest_schedule": r.max_len, "executions_where_waiter_blocked": r.stats.blocked_execs,
            "distinct_orders_of_shared_steps": r.stats.traces.len(),
            "shuttle_dfs_count": shuttle_count, "wall_s": t0.elapsed().as_secs_f64(),
        }));
        if r.failure.is_none() && !r.capped {
            if let Some(g) = group {
                match group_traces.get(&g) {
                    None => {
                        distinct_orders += r.stats.traces.len() as u64;
                        group_traces.insert(g, (cfg.name(), r.stats.traces.clone()));
                    }
                    Some((other, set)) => {
                        if *set != r.stats.traces {
                            machinery_error(
                                &ctx.id,
                                &format!(
                                    "hook-point sets are not equivalent: {} reaches {} orders of shared-memory steps, {} reaches {}",
                                    other,
                                    set.len(),
                                    cfg.name(),
                                    r.stats.traces.len()
                                ),
                            );
                        }
                    }
                }
            }
        }
        if rep.wants_sample() {
            rep.sample(|| json!({"cfg": cfg, "schedules": r.schedules, "classes": r.stats.classes}));
        }
        if let Some((msg, choices)) = r.failure {
            rep.case_nokey("failed");
            if let Err(m) = report_failure(&mut rep, cfg, &msg, &choices) {
                machinery_error(&ctx.id, &m);
            }
            break; // simplest-first: later configurations are larger versions of the same protocol
        }
    }
    rep.states += total_schedules;
    rep.transitions += total_steps;
    rep.traces += total_schedules;
    rep.extra("distinct_by_construction", json!(total_schedules));
    rep.extra("distinct_nontrivial_by_construction", json!(nontrivial));
    rep.extra("counter_level_configs", json!(per_cfg));
    rep.extra("hook_labels", json!(LABELS));
    rep.extra("distinct_orders_of_shared_steps_total", json!(distinct_orders));

    set_sched_hook(None);
    finish(&ctx, rep, spec());
}

fn spec() -> Spec<'static> {
    Spec {
        rule: "Part 1 (E5): for each configuration (G guards created before the wait, p of them dropped on the waiter's thread before the wait, optional 'rewait' variant = a first wait polled once and cancelled, one more guard created and handed to a thread, second wait; hook-point set) EVERY schedule of {waiter, one thread per remaining guard} over the scheduling points {thread start/end, join, block on a pending future, every enabled sched_point label} is executed on the real Counter (depth-first search over scheduler choices, no preemption bound, partitioned by choice prefix over all cores; schedule counts cross-checked against shuttle's own DfsScheduler up to 3*10^5). Point sets: full = one point before every shared-memory step (take, notify_waiters, notified(), strong_count, poll of notified, re-arm); min = full minus guard:before-take (which directly follows the thread-start scheduling point); all = all 8 labels. Within a group (same G, p, variant) all point sets must reach the identical set of orders of shared-memory steps, else machinery error. quick: G<=2 x p<=G {full,min} (+all for p=0), rewait G<=1 {full,min}, G=3 p in {1,2} {full,min}, G=3 p=0 min, rewait G=2 min; thorough adds G=4 p in {1,2,3} min, G=3 p=0 full (64.4M schedules, compared with min) and G=4 p=0 min (147.9M schedules). One schedule = one state, one scheduler decision = one transition; distinct by construction (the DFS never repeats a choice vector); non-trivial = schedules in which the waiter actually blocked at least once. Part 2 (E3): real RedbStore (in-memory backend); 1..2 operations (read = head_height via read_tx, write = mark_as_sampled via write_tx; every sequence of kinds) are started, their spawn_blocking closures parked at redb:tx-start, and their futures dropped; then EVERY order of the events is executed, oracle after every event: coarse events {close, finish_i} for all kind sequences (2*2 + 4*6 orders), fine events {close, run_i < take_i < notify_i} (parking also before the decrement and before notify_waiters inside CounterGuard::drop) for 1 task (2*4 orders) and the pair read+write (140 orders; thorough: all 4 pairs). Oracle: close() has not returned while a started closure has not finished its transaction (fine: has not decremented); close() has returned (within 5 s) once all have finished. Every order runs under a 40 s watchdog.",
        assumptions: &[
            "tokio::sync::Notify and Arc operations are atomic at the granularity of the hook points (tokio model-checks Notify with loom upstream)",
            "scheduling points exist only where the hooks are: between the statements of CounterGuard::drop and Counter::wait_guards, not inside Notify",
            "one waiter (close(self) consumes the store, so there is never a second one)",
            "store level: a blocking closure is paused only at redb:tx-start (closure started, transaction not begun) and, in the fine-grained orders, at the two points inside CounterGuard::drop; only blocking-pool threads that passed redb:tx-start of a gated operation are ever paused",
            "store level: 'finished' = the closure's transaction scope has ended (redb:tx-end); afterwards close() gets up to 5 s of real time to return",
        ],
        required_classes: &["returned:without-blocking", "returned:after-1-wakeups", "returned:after-2-wakeups", "store:close-returned-after-*"],
        exhaustive: true,
    }
}

#[allow(dead_code)]
fn _unused(_: &AtomicU64, _: Poll<()>, _: &dyn Future<Output = ()>) {}
