//! C17 — BlockRanges behaves as a set of heights.   (engines E1 + E2)
//!
//! Universe: heights off+1..=off+N with N = 10 and off ∈ {0, u64::MAX-N} (the second one
//! puts the top of the universe on u64::MAX).  E1: every one of the 2^N sets of each
//! universe x every operation x every argument.  E2: breadth-first search over operation
//! histories from the empty set (lv_core::bfs) with de-duplication on the real value.
//! Oracle: a bit-set model (finite part) plus two flags for the infinite tails that only
//! complement can produce; its canonical range list is unique, so "real representation ==
//! canonical list of the model" is both the set-equality and the representation invariant.
use lumina_node::block_ranges::{BlockRange, BlockRanges};
use lumina_node::verif::ranges as vr;
use lv_core::*;
use rayon::prelude::*;
use serde::{Deserialize, Serialize};
use serde_json::{Value, json};
use std::collections::BTreeSet;
use std::sync::atomic::{AtomicU64, Ordering};
use std::time::Duration;

const N: u64 = 10;
const FULL: u32 = (1 << N) - 1;
const MAX: u64 = u64::MAX;

static NONTRIVIAL: AtomicU64 = AtomicU64::new(0);
static DISTINCT: AtomicU64 = AtomicU64::new(0);

// ------------------------------------------------------------------------------- model

/// Set of heights: bit i of `bits` = height off+1+i; `lo` = all of 1..=off; `hi` = all of
/// off+N+1..=u64::MAX.  (`lo`/`hi` are forced to false when that tail is empty.)
#[derive(Clone, Copy, Debug, PartialEq, Eq, Serialize, Deserialize)]
struct M {
    off: u64,
    lo: bool,
    bits: u32,
    hi: bool,
}

impl M {
    fn fin(off: u64, bits: u32) -> M {
        M { off, lo: false, bits: bits & FULL, hi: false }
    }
    fn norm(mut self) -> M {
        if self.off == 0 {
            self.lo = false;
        }
        if self.off + N == MAX {
            self.hi = false;
        }
        self.bits &= FULL;
        self
    }
    fn is_finite(&self) -> bool {
        !self.lo && !self.hi
    }
    fn h(&self, i: u64) -> u64 {
        self.off + 1 + i
    }
    fn elems(&self) -> Vec<u64> {
        assert!(self.is_finite());
        (0..N).filter(|i| self.bits >> i & 1 == 1).map(|i| self.h(i)).collect()
    }
    fn from_elems(off: u64, e: impl IntoIterator<Item = u64>) -> M {
        let mut bits = 0;
        for h in e {
            assert!(h > off && h <= off + N);
            bits |= 1 << (h - off - 1);
        }
        M::fin(off, bits)
    }
    fn has(&self, h: u64) -> bool {
        if h == 0 {
            false
        } else if h <= self.off {
            self.lo
        } else if h - self.off <= N {
            self.bits >> (h - self.off - 1) & 1 == 1
        } else {
            self.hi
        }
    }
    fn len(&self) -> u128 {
        let mut n = self.bits.count_ones() as u128;
        if self.lo {
            n += self.off as u128;
        }
        if self.hi {
            n += (MAX - (self.off + N)) as u128;
        }
        n
    }
    fn union(&self, o: &M) -> M {
        M { off: self.off, lo: self.lo | o.lo, bits: self.bits | o.bits, hi: self.hi | o.hi }.norm()
    }
    fn inter(&self, o: &M) -> M {
        M { off: self.off, lo: self.lo & o.lo, bits: self.bits & o.bits, hi: self.hi & o.hi }.norm()
    }
    fn diff(&self, o: &M) -> M {
        M { off: self.off, lo: self.lo & !o.lo, bits: self.bits & !o.bits, hi: self.hi & !o.hi }.norm()
    }
    fn compl(&self) -> M {
        M { off: self.off, lo: !self.lo, bits: !self.bits, hi: !self.hi }.norm()
    }
    /// The unique sorted list of maximal runs.
    fn canon(&self) -> Vec<(u64, u64)> {
        let mut out = vec![];
        let mut cur: Option<(u64, u64)> = None;
        if self.lo && self.off >= 1 {
            cur = Some((1, self.off));
        }
        for i in 0..N {
            let h = self.h(i);
            if self.bits >> i & 1 == 1 {
                cur = match cur {
                    Some((s, e)) if e + 1 == h => Some((s, h)),
                    Some(r) => {
                        out.push(r);
                        Some((h, h))
                    }
                    None => Some((h, h)),
                };
            } else if let Some(r) = cur.take() {
                out.push(r);
            }
        }
        if self.hi && self.off + N < MAX {
            let s = self.off + N + 1;
            cur = match cur {
                Some((a, e)) if e + 1 == s => Some((a, MAX)),
                Some(r) => {
                    out.push(r);
                    Some((s, MAX))
                }
                None => Some((s, MAX)),
            };
        }
        if let Some(r) = cur {
            out.push(r);
        }
        out
    }
    fn build(&self) -> BlockRanges {
        BlockRanges::from_vec(self.canon().into_iter().map(|(s, e)| s..=e).collect())
            .expect("canonical ranges are valid")
    }
    fn describe(&self) -> Value {
        json!({"off": self.off, "lo": self.lo, "bits": self.bits, "hi": self.hi, "ranges": self.canon()})
    }
}

fn repr(r: &BlockRanges) -> Vec<(u64, u64)> {
    r.as_ref().iter().map(|x| (*x.start(), *x.end())).collect()
}

/// Representation invariant, stated on its own (sorted, disjoint, non-adjacent, no 0, no
/// empty range) so that the violation key names what broke.
fn invariant(r: &BlockRanges) -> Option<&'static str> {
    let v = repr(r);
    let mut prev: Option<u64> = None;
    for (s, e) in v {
        if s == 0 {
            return Some("repr-contains-height-0");
        }
        if s > e {
            return Some("repr-empty-range");
        }
        if let Some(p) = prev {
            if s <= p {
                return Some("repr-unsorted-or-overlapping");
            }
            if s == p + 1 {
                return Some("repr-adjacent-ranges");
            }
        }
        prev = Some(e);
    }
    None
}

/// Compares a real value with the model value; `Err((key, text))`.
fn same(what: &str, real: &BlockRanges, m: &M) -> Result<(), (String, String)> {
    if let Some(k) = invariant(real) {
        return Err((k.to_string(), format!("{what}: representation {:?} breaks the invariant", repr(real))));
    }
    let want = m.canon();
    let got = repr(real);
    if got != want {
        return Err((format!("{what}-wrong-set"), format!("{what}: expected {want:?}, got {got:?}")));
    }
    Ok(())
}

// ------------------------------------------------------------------------------- ops

#[derive(Clone, Debug, Serialize, Deserialize, PartialEq)]
enum Op {
    // queries
    Contains(u64),
    Len,
    IsEmpty,
    Head,
    Tail,
    LeftOf(u64),
    RightOf(u64),
    Partitions,
    IterFwd,
    IterBack,
    IterAlt,
    Display,
    Serde,
    Eq(u32),
    // value-producing / mutating
    PopHead,
    PopTail,
    Headn(u64),
    Tailn(u64),
    Edges,
    Insert(u64, u64),
    Remove(u64, u64),
    Union(u32),
    Diff(u32),
    Inter(u32),
    Not,
    /// (!A)&B, (!A)|B, B-(!A), (!A)-B, !!A, len/head/tail/contains of !A
    NotMix(u32),
}

impl Op {
    fn kind(&self) -> &'static str {
        match self {
            Op::Contains(_) => "contains",
            Op::Len => "len",
            Op::IsEmpty => "is_empty",
            Op::Head => "head",
            Op::Tail => "tail",
            Op::LeftOf(_) => "left_of",
            Op::RightOf(_) => "right_of",
            Op::Partitions => "partitions",
            Op::IterFwd | Op::IterBack | Op::IterAlt => "iter",
            Op::Display => "display",
            Op::Serde => "serde",
            Op::Eq(_) => "eq",
            Op::PopHead => "pop_head",
            Op::PopTail => "pop_tail",
            Op::Headn(_) => "headn",
            Op::Tailn(_) => "tailn",
            Op::Edges => "edges",
            Op::Insert(..) => "insert",
            Op::Remove(..) => "remove",
            Op::Union(_) => "union",
            Op::Diff(_) => "difference",
            Op::Inter(_) => "intersection",
            Op::Not => "complement",
            Op::NotMix(_) => "complement-mix",
        }
    }
}

/// Result of one evaluation: outcome class, violations, and (for E2) the successor.
struct Out {
    class: String,
    viol: Vec<(String, String)>,
    next: Option<(M, BlockRanges)>,
}

fn valid_range(a: u64, b: u64) -> bool {
    a >= 1 && a <= b
}

fn range_model(off: u64, a: u64, b: u64) -> M {
    // only called for valid ranges inside the universe
    M::from_elems(off, a..=b)
}

/// Applies `op` to the real value of `m` and compares with the model.
fn eval(m: &M, real: &BlockRanges, op: &Op) -> Out {
    let kind = op.kind();
    let mut viol: Vec<(String, String)> = vec![];
    let mut class = format!("{kind}:ok");
    let mut next: Option<(M, BlockRanges)> = None;
    let el = m.elems();
    let off = m.off;

    macro_rules! run {
        ($e:expr) => {
            match guard(|| $e) {
                Ok(v) => v,
                Err(p) => {
                    // a debug_assert on the *argument* being a valid height is the stated
                    // precondition of left_of/right_of; height 0 is not a height.
                    if matches!(op, Op::LeftOf(0) | Op::RightOf(0)) && p.contains("validate().is_ok()") {
                        return Out { class: format!("{kind}:debug-precondition-height-0"), viol, next: None };
                    }
                    viol.push((format!("{kind}-panic"), format!("{kind} panicked: {p}")));
                    return Out { class: format!("{kind}:panic"), viol, next: None };
                }
            }
        };
    }
    macro_rules! expect_eq {
        ($got:expr, $want:expr) => {{
            let g = $got;
            let w = $want;
            if g != w {
                viol.push((format!("{kind}-wrong-result"), format!("{op:?}: expected {w:?}, got {g:?}")));
            }
        }};
    }
    macro_rules! expect_same {
        ($real:expr, $m:expr) => {
            if let Err(e) = same(kind, $real, $m) {
                viol.push(e);
            }
        };
    }

    match op {
        Op::Contains(h) => {
            let g = run!(real.contains(*h));
            class = format!("contains:{g}");
            expect_eq!(g, m.has(*h));
        }
        Op::Len => {
            let g = run!(real.len());
            expect_eq!(g as u128, m.len());
        }
        Op::IsEmpty => {
            let g = run!(real.is_empty());
            class = format!("is_empty:{g}");
            expect_eq!(g, el.is_empty());
        }
        Op::Head => {
            let g = run!(real.head());
            expect_eq!(g, el.last().copied());
        }
        Op::Tail => {
            let g = run!(real.tail());
            expect_eq!(g, el.first().copied());
        }
        Op::LeftOf(h) => {
            let g = run!(vr::left_of(real, *h));
            class = format!("left_of:{}", if g.is_some() { "some" } else { "none" });
            expect_eq!(g, el.iter().rev().find(|e| **e < *h).copied());
        }
        Op::RightOf(h) => {
            let g = run!(vr::right_of(real, *h));
            class = format!("right_of:{}", if g.is_some() { "some" } else { "none" });
            expect_eq!(g, el.iter().find(|e| **e > *h).copied());
        }
        Op::Partitions => {
            let g = run!(vr::partitions(real));
            match g {
                None => {
                    class = "partitions:none".into();
                    if !el.is_empty() {
                        viol.push(("partitions-none-for-non-empty".into(), format!("partitions() of {:?} is None", m.canon())));
                    }
                }
                Some((l, mid, r)) => {
                    class = "partitions:some".into();
                    if el.is_empty() {
                        viol.push(("partitions-some-for-empty".into(), "partitions() of the empty set is Some".into()));
                    }
                    for (nm, x) in [("left", &l), ("right", &r)] {
                        if let Some(k) = invariant(x) {
                            viol.push((k.to_string(), format!("partitions {nm} {:?}", repr(x))));
                        }
                    }
                    let expand = |x: &BlockRanges| -> Option<BTreeSet<u64>> {
                        let mut s = BTreeSet::new();
                        for (a, b) in repr(x) {
                            if b < a || b - a > 4 * N {
                                return None;
                            }
                            s.extend(a..=b);
                        }
                        Some(s)
                    };
                    match (expand(&l), expand(&r)) {
                        (Some(ls), Some(rs)) => {
                            let lt = ls.iter().all(|x| *x < mid);
                            let gt = rs.iter().all(|x| *x > mid);
                            let mut all = ls.clone();
                            all.insert(mid);
                            all.extend(rs.iter().copied());
                            let want: BTreeSet<u64> = el.iter().copied().collect();
                            let bal = (ls.len() as i64 - rs.len() as i64).abs() <= 1;
                            let disjoint = ls.len() + rs.len() + 1 == all.len();
                            if !(lt && gt) {
                                viol.push(("partitions-not-ordered".into(), format!("{:?}: left {ls:?} mid {mid} right {rs:?}", m.canon())));
                            }
                            if all != want || !disjoint {
                                viol.push(("partitions-not-a-partition".into(), format!("{:?}: left {ls:?} mid {mid} right {rs:?}", m.canon())));
                            }
                            if !bal {
                                viol.push(("partitions-unbalanced".into(), format!("{:?}: left {ls:?} mid {mid} right {rs:?}", m.canon())));
                            }
                        }
                        _ => viol.push(("partitions-not-a-partition".into(), format!("{:?}: left {:?} right {:?}", m.canon(), repr(&l), repr(&r)))),
                    }
                }
            }
        }
        Op::IterFwd => {
            let g: Vec<u64> = run!(real.clone().take(64).collect());
            expect_eq!(g, el.clone());
        }
        Op::IterBack => {
            let g: Vec<u64> = run!(real.clone().rev().take(64).collect());
            let mut w = el.clone();
            w.reverse();
            expect_eq!(g, w);
        }
        Op::IterAlt => {
            let g: Vec<u64> = run!({
                let mut it = real.clone();
                let mut out = vec![];
                for i in 0..64 {
                    let x = if i % 2 == 0 { it.next() } else { it.next_back() };
                    match x {
                        Some(x) => out.push(x),
                        None => break,
                    }
                }
                out
            });
            let mut w = vec![];
            let mut d: std::collections::VecDeque<u64> = el.iter().copied().collect();
            let mut i = 0;
            while let Some(x) = if i % 2 == 0 { d.pop_front() } else { d.pop_back() } {
                w.push(x);
                i += 1;
            }
            expect_eq!(g, w);
        }
        Op::Display => {
            // format is not part of the statement: only require that the numbers printed
            // are the canonical range bounds, in order
            let g = run!(real.to_string());
            let nums: Vec<u64> = g
                .split(|c: char| !c.is_ascii_digit())
                .filter(|s| !s.is_empty())
                .map(|s| s.parse().unwrap())
                .collect();
            let want: Vec<u64> = m.canon().iter().flat_map(|(a, b)| [*a, *b]).collect();
            expect_eq!(nums, want);
        }
        Op::Serde => {
            let g = run!({
                let s = serde_json::to_string(real).unwrap();
                serde_json::from_str::<BlockRanges>(&s).map(|x| repr(&x)).map_err(|e| e.to_string())
            });
            expect_eq!(g, Ok(m.canon()));
        }
        Op::Eq(b) => {
            let other = M::fin(off, *b).build();
            let g = run!(*real == other);
            class = format!("eq:{g}");
            expect_eq!(g, m.bits == *b);
        }
        Op::PopHead => {
            let mut r = real.clone();
            let g = run!(r.pop_head());
            class = format!("pop_head:{}", if g.is_some() { "some" } else { "none" });
            expect_eq!(g, el.last().copied());
            let nm = M::from_elems(off, el.iter().rev().skip(1).copied());
            expect_same!(&r, &nm);
            next = Some((nm, r));
        }
        Op::PopTail => {
            let mut r = real.clone();
            let g = run!(r.pop_tail());
            class = format!("pop_tail:{}", if g.is_some() { "some" } else { "none" });
            expect_eq!(g, el.first().copied());
            let nm = M::from_elems(off, el.iter().skip(1).copied());
            expect_same!(&r, &nm);
            next = Some((nm, r));
        }
        Op::Headn(n) => {
            let r = run!(vr::headn(real, *n));
            let nm = M::from_elems(off, el.iter().rev().take((*n).min(64) as usize).copied());
            expect_same!(&r, &nm);
            next = Some((nm, r));
        }
        Op::Tailn(n) => {
            let r = run!(vr::tailn(real, *n));
            let nm = M::from_elems(off, el.iter().take((*n).min(64) as usize).copied());
            expect_same!(&r, &nm);
            next = Some((nm, r));
        }
        Op::Edges => {
            let r = run!(vr::edges(real));
            let nm = M::from_elems(
                off,
                el.iter().copied().filter(|e| !(m.has(e - 1) && (*e < MAX && m.has(e + 1)))),
            );
            expect_same!(&r, &nm);
            next = Some((nm, r));
        }
        Op::Insert(a, b) | Op::Remove(a, b) => {
            let ins = matches!(op, Op::Insert(..));
            let mut r = real.clone();
            let g = run!(if ins { r.insert_relaxed(*a..=*b) } else { r.remove_relaxed(*a..=*b) });
            let valid = valid_range(*a, *b);
            class = format!("{kind}:{}", if g.is_ok() { "ok" } else { "err" });
            if g.is_ok() != valid {
                viol.push((
                    format!("{kind}-validity"),
                    format!("{op:?}: range valid={valid} but result {g:?}"),
                ));
            }
            let nm = if valid && g.is_ok() {
                let rm = range_model(off, *a, *b);
                if ins { m.union(&rm) } else { m.diff(&rm) }
            } else {
                *m
            };
            expect_same!(&r, &nm);
            next = Some((nm, r));
        }
        Op::Union(b) | Op::Diff(b) | Op::Inter(b) => {
            let bm = M::fin(off, *b);
            let br = bm.build();
            // every operator form the type offers
            let (nm, forms): (M, Vec<(&str, BlockRanges)>) = match op {
                Op::Union(_) => (
                    m.union(&bm),
                    run!(vec![
                        ("a + &b", real.clone() + &br),
                        ("a + b", real.clone() + br.clone()),
                        ("a | &b", real.clone() | &br),
                        ("a | b", real.clone() | br.clone()),
                        ("a += &b", { let mut x = real.clone(); x += &br; x }),
                        ("a += b", { let mut x = real.clone(); x += br.clone(); x }),
                        ("a |= &b", { let mut x = real.clone(); x |= &br; x }),
                        ("a |= b", { let mut x = real.clone(); x |= br.clone(); x }),
                    ]),
                ),
                Op::Diff(_) => (
                    m.diff(&bm),
                    run!(vec![
                        ("a - &b", real.clone() - &br),
                        ("a - b", real.clone() - br.clone()),
                        ("a -= &b", { let mut x = real.clone(); x -= &br; x }),
                        ("a -= b", { let mut x = real.clone(); x -= br.clone(); x }),
                    ]),
                ),
                _ => (
                    m.inter(&bm),
                    run!(vec![
                        ("a & &b", real.clone() & &br),
                        ("a & b", real.clone() & br.clone()),
                        ("a &= &b", { let mut x = real.clone(); x &= &br; x }),
                        ("a &= b", { let mut x = real.clone(); x &= br.clone(); x }),
                    ]),
                ),
            };
            let mut last = None;
            for (form, r) in forms {
                if let Err((k, w)) = same(kind, &r, &nm) {
                    viol.push((k, format!("{form}: {w}")));
                }
                last = Some(r);
            }
            next = Some((nm, last.unwrap()));
        }
        Op::Not => {
            let r = run!(!real.clone());
            expect_same!(&r, &m.compl());
        }
        Op::NotMix(b) => {
            let bm = M::fin(off, *b);
            let br = bm.build();
            let nc = m.compl();
            let na = run!(!real.clone());
            let checks: Vec<(&str, BlockRanges, M)> = run!(vec![
                ("(!a) & b", na.clone() & &br, nc.inter(&bm)),
                ("b & (!a)", br.clone() & &na, nc.inter(&bm)),
                ("(!a) | b", na.clone() | &br, nc.union(&bm)),
                ("b - (!a)", br.clone() - &na, bm.diff(&nc)),
                ("(!a) - b", na.clone() - &br, nc.diff(&bm)),
                ("!(!a)", !na.clone(), *m),
                ("!((!a) | b)", !(na.clone() | &br), nc.union(&bm).compl()),
            ]);
            for (form, r, want) in checks {
                if let Err((k, w)) = same(kind, &r, &want) {
                    viol.push((k, format!("{form}: {w}")));
                }
            }
            let g = run!((na.len(), na.head(), na.tail(), na.is_empty()));
            let c = nc.canon();
            let want = (nc.len() as u64, c.last().map(|x| x.1), c.first().map(|x| x.0), c.is_empty());
            expect_eq!(g, want);
            for h in [0, 1, off, off + 1, off + N, (off + N).saturating_add(1), MAX] {
                let g = run!(na.contains(h));
                if g != nc.has(h) {
                    viol.push((format!("{kind}-wrong-result"), format!("(!a).contains({h}) = {g}")));
                }
            }
        }
    }
    Out { class, viol, next }
}

// ------------------------------------------------------------------------------- spaces

fn points(off: u64) -> Vec<u64> {
    // every height of the universe, the two neighbours outside it, 0, 1 and u64::MAX
    let mut p: Vec<u64> = (0..=N + 1).map(|i| off.saturating_add(i)).collect();
    p.extend([0, 1, MAX]);
    p.sort();
    p.dedup();
    p
}

fn b_masks(quick: bool) -> Vec<u32> {
    if quick {
        // all sets over 6 heights, embedded at the bottom and at the top of the universe
        let mut v: Vec<u32> = (0..64u32).flat_map(|m| [m, m << (N - 6)]).collect();
        v.sort();
        v.dedup();
        v
    } else {
        (0..=FULL).collect()
    }
}

/// The E1 alphabet for one stored set: every operation with every argument.
fn e1_ops(off: u64, quick: bool) -> Vec<Op> {
    let mut v = vec![
        Op::Len, Op::IsEmpty, Op::Head, Op::Tail, Op::Partitions, Op::IterFwd, Op::IterBack, Op::IterAlt,
        Op::Display, Op::Serde, Op::PopHead, Op::PopTail, Op::Edges, Op::Not,
    ];
    for h in points(off) {
        v.push(Op::Contains(h));
        v.push(Op::LeftOf(h));
        v.push(Op::RightOf(h));
    }
    for n in (0..=N + 2).chain([MAX - 1, MAX]) {
        v.push(Op::Headn(n));
        v.push(Op::Tailn(n));
    }
    // all ranges with both ends inside the universe (valid ones: 55; the rest are
    // reversed), plus ranges starting at 0
    for a in off + 1..=off + N {
        for b in off + 1..=off + N {
            v.push(Op::Insert(a, b));
            v.push(Op::Remove(a, b));
        }
    }
    for b in [0, off + 1, off + N] {
        v.push(Op::Insert(0, b));
        v.push(Op::Remove(0, b));
    }
    for b in b_masks(quick) {
        v.push(Op::Union(b));
        v.push(Op::Diff(b));
        v.push(Op::Inter(b));
        v.push(Op::NotMix(b));
        v.push(Op::Eq(b));
    }
    v
}

/// The E2 alphabet: the operations that produce a new value.
fn e2_ops(off: u64, quick: bool) -> Vec<Op> {
    let mut v = vec![Op::PopHead, Op::PopTail, Op::Edges];
    for n in 0..=N {
        v.push(Op::Headn(n));
        v.push(Op::Tailn(n));
    }
    for a in off + 1..=off + N {
        for b in a..=off + N {
            v.push(Op::Insert(a, b));
            v.push(Op::Remove(a, b));
        }
    }
    v.push(Op::Insert(0, off + 1));
    v.push(Op::Remove(off + 2, off + 1));
    let bm: Vec<u32> = if quick {
        vec![0b1, 0b10_0000_0000, 0b101, 0b1010101010, 0b0101010101, 0b0000110000, 0b1110000111, FULL]
    } else {
        b_masks(true)
    };
    for b in bm {
        v.push(Op::Union(b));
        v.push(Op::Diff(b));
        v.push(Op::Inter(b));
    }
    v
}

fn case_json(m: &M, op: &Op) -> Value {
    json!({"family": "op", "set": m.describe(), "op": op})
}

fn run_e1_set(m: M, ops: &[Op], rep: &mut Report) {
    let real = m.build();
    // construction cross-check: the same set built by single-height inserts, ascending and
    // descending, and by inserting the canonical ranges in reverse order
    let built = guard(|| {
        let mut a = BlockRanges::new();
        for h in m.elems() {
            a.insert_relaxed(h..=h).unwrap();
        }
        let mut d = BlockRanges::new();
        for h in m.elems().into_iter().rev() {
            d.insert_relaxed(h..=h).unwrap();
        }
        let mut c = BlockRanges::new();
        for (s, e) in m.canon().into_iter().rev() {
            c.insert_relaxed(s..=e).unwrap();
        }
        (a, d, c)
    });
    match built {
        Err(p) => rep.violation("construct-panic", p, json!({"family": "construct", "set": m.describe()})),
        Ok((a, d, c)) => {
            for (nm, x) in [("ascending", &a), ("descending", &d), ("ranges-reversed", &c)] {
                rep.case_nokey("construct:ok");
                if let Err((k, w)) = same("construct", x, &m) {
                    rep.violation(&k, format!("{nm}: {w}"), json!({"family": "construct", "set": m.describe()}));
                }
            }
        }
    }
    let mut nt = 0u64;
    for op in ops {
        let out = eval(&m, &real, op);
        rep.case_nokey(&out.class);
        if m.bits != 0 {
            nt += 1;
        }
        if rep.wants_sample() && m.bits % 97 == 45 && matches!(op, Op::Partitions | Op::Headn(3) | Op::Insert(..)) {
            rep.sample(|| json!({"case": case_json(&m, op), "class": out.class}));
        }
        for (k, w) in out.viol {
            rep.violation(&k, w, case_json(&m, op));
        }
    }
    DISTINCT.fetch_add(ops.len() as u64 + 3, Ordering::Relaxed);
    NONTRIVIAL.fetch_add(nt, Ordering::Relaxed);
}

// ---- constructors from raw range lists (from_vec / TryFrom / Deserialize) and the
// ---- single-range helpers of BlockRangeExt

fn run_constructors(off: u64, rep: &mut Report) {
    // endpoints: 0 and a 5-height window at the bottom of the universe; the top of the
    // shifted universe is reached because its window is moved to end at u64::MAX
    let base = if off == 0 { 0 } else { MAX - 5 };
    let pts: Vec<u64> = std::iter::once(0).chain(base + 1..=base + 5).collect();
    let ranges: Vec<(u64, u64)> = pts.iter().flat_map(|a| pts.iter().map(move |b| (*a, *b))).collect();
    let mut lists: Vec<Vec<(u64, u64)>> = vec![vec![]];
    for r in &ranges {
        lists.push(vec![*r]);
    }
    for r in &ranges {
        for s in &ranges {
            lists.push(vec![*r, *s]);
        }
    }
    for list in lists {
        let case = json!({"family": "from_vec", "ranges": list});
        let all_valid = list.iter().all(|(a, b)| valid_range(*a, *b));
        let strictly_sorted = list.windows(2).all(|w| w[1].0 > w[0].1);
        let adjacent = list.windows(2).any(|w| w[0].1 < MAX && w[1].0 == w[0].1 + 1);
        let set: BTreeSet<u64> = if all_valid { list.iter().flat_map(|(a, b)| *a..=*b).collect() } else { Default::default() };
        let vecs = || list.iter().map(|(a, b)| *a..=*b).collect::<Vec<BlockRange>>();
        let results = guard(|| {
            let fv = BlockRanges::from_vec(vecs().into_iter().collect());
            let tf = BlockRanges::try_from(&vecs()[..]);
            let de = serde_json::from_str::<BlockRanges>(&serde_json::to_string(&vecs()).unwrap());
            vec![("from_vec", fv.ok()), ("try_from", tf.ok()), ("deserialize", de.ok())]
        });
        DISTINCT.fetch_add(3, Ordering::Relaxed);
        match results {
            Err(p) => {
                rep.case_nokey("from_vec:panic");
                rep.violation("from_vec-panic", p, case);
            }
            Ok(rs) => {
                for (nm, r) in rs {
                    let must_accept = all_valid && strictly_sorted && !adjacent;
                    let must_reject = !all_valid || !strictly_sorted;
                    match &r {
                        Some(x) => {
                            rep.case_nokey(if adjacent && !must_reject { "from_vec:adjacent-input-accepted" } else { "from_vec:accept" });
                            if must_reject {
                                rep.violation("from_vec-accepts-invalid-list", format!("{nm} accepted {list:?}"), case.clone());
                            } else {
                                // must denote the right set (membership over the window)
                                let bad = pts.iter().chain([&base.saturating_add(6), &MAX]).any(|h| x.contains(*h) != set.contains(h));
                                if bad {
                                    rep.violation("from_vec-wrong-set", format!("{nm}({list:?}) = {:?}", repr(x)), case.clone());
                                }
                                if !adjacent {
                                    if let Some(k) = invariant(x) {
                                        rep.violation(k, format!("{nm}({list:?}) = {:?}", repr(x)), case.clone());
                                    }
                                }
                            }
                        }
                        None => {
                            rep.case_nokey("from_vec:reject");
                            if must_accept {
                                rep.violation("from_vec-rejects-canonical-list", format!("{nm} rejected {list:?}"), case.clone());
                            }
                        }
                    }
                }
            }
        }
    }
    // TryFrom<RangeInclusive>
    for (a, b) in &ranges {
        let r = guard(|| BlockRanges::try_from(*a..=*b));
        DISTINCT.fetch_add(1, Ordering::Relaxed);
        let case = json!({"family": "try_from_range", "range": [a, b]});
        match r {
            Err(p) => rep.violation("try_from-panic", p, case),
            Ok(r) => {
                rep.case_nokey(if r.is_ok() { "try_from_range:ok" } else { "try_from_range:err" });
                let want: Option<Vec<(u64, u64)>> = valid_range(*a, *b).then(|| vec![(*a, *b)]);
                if r.as_ref().ok().map(repr) != want {
                    rep.violation("try_from-wrong-result", format!("try_from({a}..={b}) = {r:?}"), case);
                }
            }
        }
    }
}

fn run_range_ext(off: u64, rep: &mut Report) {
    let hs: Vec<u64> = (off + 1..=off + N).collect();
    let rs: Vec<(u64, u64)> = hs.iter().flat_map(|a| hs.iter().filter(move |b| *b >= a).map(move |b| (*a, *b))).collect();
    let set = |r: &(u64, u64)| -> BTreeSet<u64> { (r.0..=r.1).collect() };
    for r in &rs {
        let rr: BlockRange = r.0..=r.1;
        let sr = set(r);
        for s in &rs {
            let ss: BlockRange = s.0..=s.1;
            let so = set(s);
            let case = json!({"family": "range_ext", "a": [r.0, r.1], "b": [s.0, s.1]});
            DISTINCT.fetch_add(1, Ordering::Relaxed);
            match guard(|| {
                (
                    vr::range_is_adjacent(&rr, &ss),
                    vr::range_is_overlapping(&rr, &ss),
                    vr::range_is_left_of(&rr, &ss),
                    vr::range_is_right_of(&rr, &ss),
                )
            }) {
                Err(p) => {
                    rep.case_nokey("range_ext:panic");
                    rep.violation("range_ext-panic", p, case);
                }
                Ok(g) => {
                    let overlap = sr.intersection(&so).next().is_some();
                    let u: BTreeSet<u64> = sr.union(&so).copied().collect();
                    let contiguous = u.len() as u64 == u.iter().next_back().unwrap() - u.iter().next().unwrap() + 1;
                    let want = (
                        !overlap && contiguous,
                        overlap,
                        sr.iter().all(|x| so.iter().all(|y| x < y)),
                        sr.iter().all(|x| so.iter().all(|y| x > y)),
                    );
                    rep.case_nokey("range_ext:relations");
                    if g != want {
                        rep.violation("range_ext-wrong-relation", format!("(adjacent, overlapping, left_of, right_of): expected {want:?}, got {g:?}"), case);
                    }
                }
            }
        }
        for n in (0..=N + 2).chain([MAX - 1, MAX]) {
            let case = json!({"family": "range_ext_n", "a": [r.0, r.1], "n": n});
            DISTINCT.fetch_add(1, Ordering::Relaxed);
            match guard(|| (vr::range_headn(&rr, n), vr::range_tailn(&rr, n), vr::range_len(&rr), vr::range_validate(&rr).is_ok(), vr::range_display(&rr))) {
                Err(p) => {
                    rep.case_nokey("range_ext:panic");
                    rep.violation("range_ext-panic", p, case);
                }
                Ok((h, t, l, v, _d)) => {
                    rep.case_nokey("range_ext:headn-tailn");
                    let k = n.min(64) as usize;
                    let wh: BTreeSet<u64> = sr.iter().rev().take(k).copied().collect();
                    let wt: BTreeSet<u64> = sr.iter().take(k).copied().collect();
                    let as_set = |x: &BlockRange| -> BTreeSet<u64> {
                        if x.start() > x.end() { BTreeSet::new() } else { (*x.start()..=*x.end()).take(64).collect() }
                    };
                    if as_set(&h) != wh {
                        rep.violation("range-headn-wrong-result", format!("({}..={}).headn({n}) = {h:?}", r.0, r.1), case.clone());
                    }
                    if as_set(&t) != wt {
                        rep.violation("range-tailn-wrong-result", format!("({}..={}).tailn({n}) = {t:?}", r.0, r.1), case.clone());
                    }
                    if l != sr.len() as u64 || !v {
                        rep.violation("range_ext-wrong-len", format!("len {l} valid {v}"), case);
                    }
                }
            }
        }
    }
}

// ------------------------------------------------------------------------------- E2

#[derive(Clone)]
struct St {
    m: M,
    real: BlockRanges,
}

fn key_of(r: &BlockRanges) -> u64 {
    fnv64(format!("{:?}", repr(r)).as_bytes())
}

fn run_bfs(off: u64, depth: usize, dedup: bool, quick: bool, rep: &mut Report) {
    let ops = e2_ops(off, quick);
    let init = St { m: M::fin(off, 0), real: BlockRanges::new() };
    let cfg = BfsConfig { max_depth: depth, max_states: 4_000_000, wall_cap: Duration::from_secs(600), dedup };
    let k0 = key_of(&init.real);
    bfs(
        init,
        k0,
        &cfg,
        |_s| ops.iter().map(|o| (off, o.clone())).collect::<Vec<(u64, Op)>>(),
        |s, (_, o)| {
            let out = eval(&s.m, &s.real, o);
            let next = match out.next {
                Some((m, real)) => St { m, real },
                None => s.clone(), // panic: stay (the violation is recorded)
            };
            let key = key_of(&next.real);
            Step { next, key, class: out.class, violations: out.viol }
        },
        rep,
    );
}

/// Every history of exactly `depth` operations from the empty set, without storing states
/// (depth-first, parallel over the first operation).  Returns the number of transitions.
fn run_all_histories(off: u64, depth: usize, quick_alphabet: bool, rep: &mut Report) -> u64 {
    let ops = e2_ops(off, quick_alphabet);
    fn go(s: &St, off: u64, ops: &[Op], left: usize, hist: &mut Vec<Op>, rep: &mut Report, n: &mut u64) {
        if left == 0 {
            return;
        }
        for o in ops {
            let out = eval(&s.m, &s.real, o);
            *n += 1;
            rep.case_nokey(&out.class);
            hist.push(o.clone());
            for (k, w) in out.viol {
                let h: Vec<(u64, &Op)> = hist.iter().map(|o| (off, o)).collect();
                rep.violation(&k, w, json!({"history": h}));
            }
            if let Some((m, real)) = out.next {
                go(&St { m, real }, off, ops, left - 1, hist, rep, n);
            }
            hist.pop();
        }
    }
    let init = St { m: M::fin(off, 0), real: BlockRanges::new() };
    let parts: Vec<(Report, u64)> = ops
        .par_iter()
        .map(|o| {
            let mut r = Report::new();
            let mut n = 1u64;
            let out = eval(&init.m, &init.real, o);
            r.case_nokey(&out.class);
            for (k, w) in out.viol {
                r.violation(&k, w, json!({"history": [(off, o)]}));
            }
            if let Some((m, real)) = out.next {
                let mut hist = vec![o.clone()];
                go(&St { m, real }, off, &ops, depth - 1, &mut hist, &mut r, &mut n);
            }
            (r, n)
        })
        .collect();
    let mut total = 0;
    for (r, n) in parts {
        rep.merge_in(r);
        total += n;
    }
    rep.transitions += total;
    rep.traces += total;
    total
}

/// Replays a history of the E2 alphabet from the empty set.
fn replay_history(off: u64, hist: &[Op], rep: &mut Report) {
    let mut s = St { m: M::fin(off, 0), real: BlockRanges::new() };
    for (i, o) in hist.iter().enumerate() {
        let out = eval(&s.m, &s.real, o);
        rep.case_nokey(&out.class);
        for (k, w) in out.viol {
            let h: Vec<(u64, &Op)> = hist[..=i].iter().map(|o| (off, o)).collect();
            rep.violation(&k, w, json!({"history": h}));
        }
        if let Some((m, real)) = out.next {
            s = St { m, real };
        }
    }
}


fn main() {
    let ctx = Ctx::from_args("C17");
    let quick = ctx.quick();
    let offs = [0u64, MAX - N];
    let mut rep = Report::new();

    if let Some(c) = ctx.replay_case() {
        if let Some(h) = c.get("history") {
            let hist: Vec<(u64, Op)> = serde_json::from_value(h.clone()).expect("history of (off, op)");
            let off = hist.first().map(|x| x.0).unwrap_or(0);
            let ops: Vec<Op> = hist.into_iter().map(|x| x.1).collect();
            replay_history(off, &ops, &mut rep);
        } else {
            match c["family"].as_str().unwrap_or("") {
                "op" => {
                    let m: M = M {
                        off: c["set"]["off"].as_u64().unwrap(),
                        lo: false,
                        bits: c["set"]["bits"].as_u64().unwrap() as u32,
                        hi: false,
                    };
                    let op: Op = serde_json::from_value(c["op"].clone()).expect("op");
                    let out = eval(&m, &m.build(), &op);
                    rep.case_nokey(&out.class);
                    for (k, w) in out.viol {
                        rep.violation(&k, w, case_json(&m, &op));
                    }
                }
                "construct" => {
                    let m = M::fin(c["set"]["off"].as_u64().unwrap(), c["set"]["bits"].as_u64().unwrap() as u32);
                    run_e1_set(m, &[], &mut rep);
                }
                // the remaining families are tiny: re-run the family the case belongs to
                "from_vec" | "try_from_range" => {
                    let big = c.to_string().contains(&(MAX - 2).to_string()) || c.to_string().contains(&MAX.to_string());
                    run_constructors(if big { MAX - N } else { 0 }, &mut rep);
                }
                "range_ext" | "range_ext_n" => {
                    let off = if c["a"][0].as_u64().unwrap() > 1 << 32 { MAX - N } else { 0 };
                    run_range_ext(off, &mut rep);
                }
                other => machinery_error(&ctx.id, &format!("unknown replay family {other:?}")),
            }
        }
    } else {
        // E1: simplest sets first (by number of heights)
        let mut sets: Vec<M> = offs.iter().flat_map(|o| (0..=FULL).map(move |b| M::fin(*o, b))).collect();
        sets.sort_by_key(|m| (m.bits.count_ones(), m.off, m.bits));
        let ops0 = e1_ops(offs[0], quick);
        let ops1 = e1_ops(offs[1], quick);
        let r = sets
            .par_iter()
            .fold(Report::new, |mut r, m| {
                run_e1_set(*m, if m.off == 0 { &ops0 } else { &ops1 }, &mut r);
                r
            })
            .reduce(Report::new, Report::merge);
        rep.merge_in(r);
        for off in offs {
            run_constructors(off, &mut rep);
            run_range_ext(off, &mut rep);
        }
        let e1_evals = rep.evaluations;
        // E2: histories from the empty set.  (a) with de-duplication on the real value,
        // (b) every history of length <= 2 (q) / 3 (t) without de-duplication.
        let mut undeduped = 0;
        for off in offs {
            run_bfs(off, 12, true, quick, &mut rep);
            undeduped += run_all_histories(off, ctx.tier.pick(2, 3), true, &mut rep);
            if !quick {
                undeduped += run_all_histories(off, 2, false, &mut rep);
            }
        }
        rep.extra("e2_histories_without_dedup_transitions", json!(undeduped));
        rep.extra("e1_evaluations", json!(e1_evals));
        rep.extra("e2_transitions", json!(rep.transitions));
        rep.extra("distinct_by_construction", json!(DISTINCT.load(Ordering::Relaxed) + rep.transitions));
        rep.extra("distinct_nontrivial_by_construction", json!(NONTRIVIAL.load(Ordering::Relaxed)));
        rep.extra("universe", json!({"N": N, "offsets": offs, "b_sets": b_masks(quick).len()}));
    }
    // smallest counterexample first within each class
    rep.violations.sort_by_key(|v| (v.key.clone(), v.case.to_string().len()));
    finish(
        &ctx,
        rep,
        Spec {
            rule: "E1: all 2^10 sets over heights off+1..=off+10 for off in {0, u64::MAX-10} x every operation (contains/len/is_empty/head/tail/left_of/right_of/partitions/iteration fwd,back,alternating/Display/serde/==/pop_head/pop_tail/headn/tailn/edges/insert_relaxed/remove_relaxed/union/difference/intersection in every operator form/complement and complement mixes) x every argument (heights: whole universe, its two outside neighbours, 0, 1, u64::MAX; n in 0..=12 and u64::MAX-1, u64::MAX; all 100 (a,b) pairs inside the universe plus ranges from 0; second operand: quick = all sets over 6 heights embedded at both ends of the universe (127), thorough = all 1024 sets); plus from_vec/TryFrom/Deserialize on every list of <=2 ranges with endpoints in {0} ∪ 5 heights, and the single-range helpers on all pairs of ranges. E2: BFS over histories of value-producing operations from the empty set, dedup on the real representation until no new value appears (all 1024 sets of each universe, every one expanded with the whole alphabet; small operand alphabet in quick, 127 operands in thorough), and every history without dedup: length <= 2 (q) / <= 3 with the small operand alphabet and <= 2 with the large one (t). distinct = (set, operation, argument) by construction; non-trivial = stored set non-empty",
            assumptions: &[
                "heights outside the two 10-height universes are represented only by the infinite tails that complement produces",
                "left_of(0)/right_of(0): height 0 is not a height; the debug_assert on the argument (debug builds only) is accepted as outcome class debug-precondition-height-0, any other value than None would be a violation",
                "from_vec/TryFrom<[..]>/Deserialize accept a list whose ranges are adjacent (e.g. [1..=2, 3..=4]) and keep it un-merged; constructors from raw lists are not in the statement's operation list, so this is recorded as outcome class from_vec:adjacent-input-accepted, not as a violation (membership of the result is still checked)",
                "partitions is checked for the stated contract (ordered, exact partition, sizes differ by at most 1), not for one particular split",
                "Display is only required to print the canonical bounds in order",
            ],
            required_classes: &[
                "contains:true", "contains:false", "insert:ok", "insert:err", "remove:ok", "remove:err", "partitions:some",
                "partitions:none", "left_of:some", "left_of:none", "right_of:some", "right_of:none", "union:ok",
                "difference:ok", "intersection:ok", "complement:ok", "complement-mix:ok", "headn:ok", "tailn:ok",
                "edges:ok", "pop_head:some", "pop_head:none", "pop_tail:some", "from_vec:accept", "from_vec:reject",
                "range_ext:relations", "eq:true", "eq:false",
            ],
            exhaustive: true,
        },
    );
}
