//! C27 — Verified header range requests terminate and never panic.   (engine E3)
//!
//! System: the real `P2p::get_verified_headers_range(from, amount)` on the mocked `P2p`
//! (task on a paused current-thread runtime, harness owns the command receiver).
//! Environment: answers every `HeaderExRequest` the way the real header-ex client does
//! (written from `HeaderRequestExt::is_valid` / the client's contract, not calling it):
//!   no origin, amount 0, amount > usize::MAX, origin 0 with amount > 1  => InvalidRequest
//!   origin inside the served chain => the headers it has from origin (up to amount)
//!   origin beyond the chain (or origin+amount overflowing)              => HeaderNotFound
//! Choice per event: which outstanding request is answered next (choice 0 = oldest).
//! Oracle (from the statement): amount 0 returns within 10 environment events; no panic
//! for any amount within 200 events; an amount the chain serves completely returns
//! Ok(exactly from+1 ..= from+amount, the served headers) within the 200 events.
use lumina_node::node::{HeaderExError, P2pError};
use lumina_node::verif::mock_p2p::VP2p;
use lumina_node::verif::session;
use lv_core::*;
use rayon::prelude::*;
use serde_json::{Value, json};
use std::time::{Duration, Instant};

#[path = "../shared/session_sys.rs"]
mod session_sys;
use session_sys::*;

const HORIZON: u64 = 200;
const ZERO_PROMPT: u64 = 10;

/// The simulated header-ex client.
fn client_answer(chain: &Chain, origin: Option<u64>, amount: u64) -> (SessResult, &'static str) {
    let invalid = || (Err(P2pError::HeaderEx(HeaderExError::InvalidRequest)), "invalid-request");
    let Some(o) = origin else { return invalid() };
    if amount == 0 || usize::try_from(amount).is_err() {
        return invalid();
    }
    if o == 0 {
        if amount > 1 {
            return invalid();
        }
        return (Ok(vec![chain.get(chain.last()).unwrap().clone()]), "head");
    }
    if o < chain.first || o > chain.last() {
        return (Err(P2pError::HeaderEx(HeaderExError::HeaderNotFound)), "not-found");
    }
    let n = amount.min(chain.last() - o + 1);
    (Ok(chain.span(o, n)), if n == amount { "served" } else { "served-partially" })
}

struct Outcome {
    class: String,
    obs: u64,
    viols: Vec<(String, String)>,
    events: u64,
}

fn run_exec(chain: &Chain, from_h: u64, amount: u64, prefix: &[u32], keep: bool) -> Exec {
    let mut ch = Chooser::new(prefix, keep);
    // the network serves every requested header iff from+1 ..= from+amount lies in the chain
    let served = amount >= 1 && from_h.checked_add(amount).is_some_and(|e| e <= chain.last());
    let res = on_paused_runtime(async {
        let mut vp = VP2p::new();
        let from = chain.get(from_h).expect("from inside chain").clone();
        let handle = tokio::spawn(session::get_verified_headers_range(&vp, from, amount));
        let mut out: Vec<Pending> = vec![];
        let mut viols: Vec<(String, String)> = vec![];
        let mut obs = Obs::new();
        let mut events = 0u64;
        let mut seq = 0u64;
        let mut stopped: Option<&'static str> = None;
        loop {
            let d = settle_and_drain(&mut vp, &mut seq).await;
            for u in d.unexpected {
                obs.add(&format!("unexpected {u}"));
            }
            for p in d.new {
                obs.add(&format!("req {:?}+{}", p.origin, p.amount));
                out.push(p);
            }
            if handle.is_finished() {
                break;
            }
            if amount == 0 && events >= ZERO_PROMPT {
                viols.push(viol(
                    "zero-amount-not-prompt",
                    format!("get_verified_headers_range(from={from_h}, amount=0) has not returned after {events} answered header-ex requests"),
                ));
                stopped = Some("zero-not-prompt");
                break;
            }
            if out.is_empty() {
                viols.push(viol(
                    "stalled-without-request",
                    format!("get_verified_headers_range(from={from_h}, amount={amount}) neither returned nor has an outstanding request after {events} answers"),
                ));
                stopped = Some("stalled");
                break;
            }
            if events >= HORIZON {
                if served {
                    viols.push(viol(
                        "served-amount-not-returned",
                        format!("get_verified_headers_range(from={from_h}, amount={amount}) did not return within {HORIZON} answers although every header was served"),
                    ));
                }
                stopped = Some("horizon");
                break;
            }
            let c = ch.choose(out.len(), || {
                out.iter().map(|p| format!("#{}@{:?}+{}", p.seq, p.origin, p.amount)).collect::<Vec<_>>().join(" ")
            });
            let p = out.remove(c);
            let (payload, kind) = client_answer(chain, p.origin, p.amount);
            obs.add(&format!("ans #{} {kind}", p.seq));
            let _ = p.respond_to.send(payload);
            events += 1;
        }
        let class: String;
        if let Some(s) = stopped {
            handle.abort();
            class = s.into();
        } else {
            match handle.await {
                Err(e) => {
                    let msg = take_last_panic().unwrap_or_else(|| e.to_string());
                    viols.push(viol("panic", format!("get_verified_headers_range(from={from_h}, amount={amount}) panicked: {msg}")));
                    class = "panic".into();
                }
                Ok(Ok(v)) => {
                    obs.add(&format!("ok {}", v.len()));
                    if served {
                        let want = chain.span(from_h + 1, amount);
                        if v != want {
                            viols.push(viol(
                                "served-amount-wrong-headers",
                                format!("from={from_h} amount={amount}: expected heights {}..={}, got {}", from_h + 1, from_h + amount, show_heights(&heights(&v))),
                            ));
                        }
                    }
                    class = if v.is_empty() { "ok:empty".into() } else { "ok".into() };
                }
                Ok(Err(e)) => {
                    obs.add(&format!("err {}", err_class(&e)));
                    if served {
                        viols.push(viol(
                            "served-amount-failed",
                            format!("from={from_h} amount={amount}: every header was served but the call returned error {e}"),
                        ));
                    }
                    class = format!("err:{}", err_class(&e));
                }
            }
        }
        Outcome { class, obs: obs.0, viols, events }
    });
    match res {
        Ok(o) => Exec::from_chooser(ch, o.class, o.obs, o.viols, o.events),
        Err(p) => {
            let mut x = Exec::from_chooser(ch, "driver-panic", 0, vec![], 0);
            x.diverged = Some(format!("harness driver panicked: {p}"));
            x
        }
    }
}

fn main() {
    let ctx = Ctx::from_args("C27");
    // log lines of the code under test are evaluated (and discarded), as under RUST_LOG=trace
    evaluate_log_arguments();
    let max_small: u64 = ctx.tier.pick(80, 600);
    let chain = Chain::generate(700);
    let froms = [1u64, 5];

    let mut rep = Report::new();
    if let Some(c) = ctx.replay_case() {
        let from_h = c["from"].as_u64().expect("from");
        let amount = c["amount"].as_u64().expect("amount");
        let choices: Vec<u32> = serde_json::from_value(c["choices"].clone()).expect("choices");
        let x = run_exec(&chain, from_h, amount, &choices, true);
        if let Some(d) = &x.diverged {
            machinery_error(&ctx.id, d);
        }
        rep.case(fnv64(format!("{from_h}/{amount}/{choices:?}").as_bytes()), &x.class, true);
        rep.transitions += x.events;
        for (k, what) in x.violations {
            rep.violation(&k, what, json!({"from": from_h, "amount": amount, "choices": x.taken, "labels": x.labels}));
        }
    } else {
        // (from, amount, deviation bound), simplest first
        let mut jobs: Vec<(u64, u64, usize)> = vec![];
        for amount in 0..=max_small {
            for f in froms {
                // thorough: two deviations for the amounts the quick tier covers with one
                let bound = if !ctx.quick() && amount <= 80 { 2 } else { 1 };
                jobs.push((f, amount, bound));
            }
        }
        for f in froms {
            for amount in [1u64 << 32, 1u64 << 63, u64::MAX - f - 1, u64::MAX - f, u64::MAX] {
                jobs.push((f, amount, 1));
            }
        }
        let deadline = Instant::now() + Duration::from_secs(ctx.tier.pick(50, 840));
        let results: Vec<(Report, Option<String>, Value)> = jobs
            .par_iter()
            .map(|&(f, amount, bound)| {
                let mut r = Report::new();
                r.sample_cap = 1;
                let cfg = DevConfig {
                    bound,
                    wall_cap: deadline.saturating_duration_since(Instant::now()),
                    max_execs: u64::MAX,
                    max_deviation_pos: 0,
                };
                let err = explore_deviations(&cfg, |p, k| run_exec(&chain, f, amount, p, k), &mut r).err();
                for v in r.violations.iter_mut() {
                    v.case["from"] = json!(f);
                    v.case["amount"] = json!(amount);
                }
                for s in r.samples.iter_mut() {
                    s["from"] = json!(f);
                    s["amount"] = json!(amount);
                }
                let info = json!([f, amount, bound, r.evaluations]);
                (r, err, info)
            })
            .collect();
        let mut infos = vec![];
        let mut nontrivial = 0u64;
        for ((r, err, info), job) in results.into_iter().zip(&jobs) {
            if let Some(e) = err {
                machinery_error(&ctx.id, &e);
            }
            // non-trivial: amount 0, amounts beyond the first batch (> 8 headers: several
            // requests in flight), and the overflow candidates
            if job.1 == 0 || job.1 > 8 {
                nontrivial += r.evaluations;
            }
            infos.push(info);
            rep.merge_in(r);
        }
        rep.sample_cap = 6;
        if rep.samples.len() > 6 {
            let n = rep.samples.len();
            let keep: Vec<Value> = (0..6).map(|i| rep.samples[i * (n - 1) / 5].clone()).collect();
            rep.samples = keep;
        }
        rep.extras.remove("executions_by_deviations");
        rep.extras.remove("deviation_bound");
        rep.extras.remove("distinct_observation_traces");
        rep.extra("jobs_from_amount_bound_executions", json!(infos));
        rep.extra("distinct_nontrivial_by_construction", json!(nontrivial));
    }
    finish(
        &ctx,
        rep,
        Spec {
            rule: "E3 envdfs on the real P2p::get_verified_headers_range(from, amount): from at heights {1,5} of a 700-header chain x amount in {0} ∪ 1..80 (quick) / 1..600 (thorough) ∪ {2^32, 2^63, u64::MAX-from-1, u64::MAX-from, u64::MAX}; the environment answers like the real header-ex client; every order of answering the outstanding requests with <= 1 non-default choice (thorough: <= 2 for amounts <= 80), choice 0 = oldest request; each execution (= evaluation, distinct by (from, amount, choice sequence)) runs until the call returns or 200 answers; non-trivial = amount 0 or amount > 8; states = distinct observation traces; transitions = environment answers",
            assumptions: &[
                "VERIF_SEED is unused: header contents come from ExtendedHeaderGenerator (random keys); the property depends on heights and adjacency only",
                "the simulated client follows HeaderRequestExt::is_valid and the client contract (InvalidRequest / headers / HeaderNotFound); retries and peer selection inside the real client are not part of this system",
                "'promptly' = within 10 answered header-ex requests; 'never panics' = within a horizon of 200 answered requests; overflow checks and debug assertions are ON in the harness build",
                "a tracing subscriber that enables every callsite and discards the events is installed, so arithmetic inside debug!/trace! lines is executed as it is with logging enabled",
                "header times come from Time::now() at generation; the run is far shorter than any verification window",
            ],
            required_classes: &["ok", "horizon"],
            exhaustive: true,
        },
    );
}
