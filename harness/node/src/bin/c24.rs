//! C24 — Syncer fetches missing, insertable heights nearest the head first.   (engines E1 + E3)
//!
//! Pure part (E1): the real `calculate_range_to_fetch` on every synced set over heights
//! off+1..=off+N (2^N sets; off = 0 and the copy shifted to the top of u64) x every head in
//! {0} ∪ off..=off+N+1 x limit in {0,1,2,3,5,N,N+1,u64::MAX}.  Oracle from the statement over a
//! BTreeSet (no code shared with /repo).
//!
//! Worker part (E3): the real `Syncer` + `InMemoryStore` + mocked `P2p` under the full
//! environment menu of the C25/C38 explorations (partial / failing / forked answers, new heads,
//! pruning of out-of-window heights, disconnects, clock); every batch the syncer announces and
//! every header-ex range request it emits is checked against the store at that moment.
use lumina_node::verif::syncer::calculate_range_to_fetch;
use lv_core::*;
use serde_json::json;
use std::collections::BTreeSet;
use std::ops::RangeInclusive;
use std::time::Duration;

#[path = "../shared/syncer_sys.rs"]
mod syncer_sys;
use syncer_sys::*;

fn runs(set: &BTreeSet<u64>) -> Vec<RangeInclusive<u64>> {
    let mut out: Vec<RangeInclusive<u64>> = vec![];
    for &h in set {
        match out.last_mut() {
            Some(r) if *r.end() + 1 == h => *r = *r.start()..=h,
            _ => out.push(h..=h),
        }
    }
    out
}

/// Evaluates one pure case; returns the outcome class.
fn eval_pure(synced: &BTreeSet<u64>, head: u64, limit: u64, key: u64, rep: &mut Report) {
    let ranges = runs(synced);
    let case = json!({"pure": {"synced": synced, "head": head, "limit": limit}});
    let got = match guard(|| calculate_range_to_fetch(head, &ranges, limit)) {
        Ok(r) => r,
        Err(p) => {
            rep.case(key, "panic", true);
            rep.violation("pure-panic", format!("calculate_range_to_fetch panicked: {p}"), case);
            return;
        }
    };
    let (a, b) = (*got.start(), *got.end());
    let empty = a > b;
    let max_synced = synced.iter().next_back().copied();
    let m = max_synced.unwrap_or(0);
    // the network head is at least the highest synced (verified) header
    let eff_head = head.max(m);
    let behind = m < head;
    // start of the highest synced range
    let top_start = max_synced.map(|m| {
        let mut s = m;
        while s > 1 && synced.contains(&(s - 1)) {
            s -= 1;
        }
        s
    });
    // The statement constrains the batches that ARE requested; it has no liveness clause
    // (convergence is C38's).  An empty result is therefore never a violation; whether missing
    // insertable heights existed is only recorded as an outcome class.
    let missing_exist = limit >= 1 && (behind || top_start.is_some_and(|s| s > 1));
    let class = if empty && missing_exist {
        "empty:although-missing-heights-exist"
    } else if empty {
        "empty:nothing-missing"
    } else if behind {
        "above-highest-synced"
    } else if head < m {
        "below-highest-range(head-below-synced)"
    } else {
        "below-highest-range"
    };
    rep.case(key, class, !synced.is_empty() && !empty);
    if rep.wants_sample() && key % 9973 == 7 {
        rep.sample(|| json!({"case": case, "result": [a, b]}));
    }
    let mut bad = |k: &str, what: String| rep.violation(k, format!("{what}; result {a}..={b}"), case.clone());
    if empty {
        return;
    }
    if a == 0 {
        bad("pure-batch-contains-height-0", "height 0 is not a block height".into());
    }
    if let Some(h) = synced.iter().find(|h| a <= **h && **h <= b) {
        bad("pure-batch-contains-synced-height", format!("height {h} is already synced"));
    }
    // b - a + 1 > limit, without overflow
    if b - a > limit.saturating_sub(1) || limit == 0 {
        bad("pure-batch-exceeds-limit", format!("more than {limit} heights"));
    }
    if b > eff_head {
        bad("pure-batch-above-network-head", format!("network head is {eff_head}"));
    }
    if behind {
        if a != m + 1 {
            bad("pure-batch-not-adjacent", format!("behind the head: must start directly above the highest synced height {m}"));
        }
    } else {
        let s = top_start.expect("caught up implies a synced height");
        if b.checked_add(1) != Some(s) {
            bad("pure-batch-not-adjacent", format!("caught up: must end directly below the highest synced range starting at {s}"));
        }
    }
}

fn worker_configs(tier: Tier) -> Vec<(SysCfg, usize)> {
    let menu = Menu {
        prefix: true,
        error: true,
        adversarial: true,
        fork: false,
        store_call_prune: true,
        head_variants: true,
        header_sub: true,
        prune: true,
        disconnect: true,
        clock: true,
    };
    let base = SysCfg {
        name: "old6-batch4",
        old_upto: 6,
        init_head: 16,
        total: 20,
        batch: 4,
        prefill: None,
        menu,
        oracles: Oracles { c24: true, c25: false, c38: false },
        tail_events: 40,
        max_events: 60,
        aging: None,
    };
    let b = tier.pick(3, 4);
    vec![
        (base.clone(), b),
        (SysCfg { name: "old6-batch4-prefilled-9-12", prefill: Some(9..=12), ..base.clone() }, b - 1),
        (SysCfg { name: "all-in-window-batch7", old_upto: 0, batch: 7, ..base }, b - 1),
    ]
}

fn main() {
    let ctx = Ctx::from_args("C24");
    let n: u64 = ctx.tier.pick(10, 12);
    let mut rep = Report::new();
    if let Some(c) = ctx.replay_case() {
        if !c["pure"].is_null() {
            let synced: BTreeSet<u64> = serde_json::from_value(c["pure"]["synced"].clone()).unwrap();
            let head = c["pure"]["head"].as_u64().unwrap();
            let limit = c["pure"]["limit"].as_u64().unwrap();
            eval_pure(&synced, head, limit, 0, &mut rep);
        } else {
            let cfgs = worker_configs(Tier::Thorough);
            let name = c["config"].as_str().unwrap_or("old6-batch4").to_string();
            let Some((cfg, _)) = cfgs.iter().find(|c| c.0.name == name) else {
                machinery_error(&ctx.id, &format!("unknown config {name}"));
            };
            let ch = Chains::build(cfg.old_upto, cfg.total).unwrap_or_else(|e| machinery_error(&ctx.id, &e));
            let choices: Vec<u32> = serde_json::from_value(c["choices"].clone()).unwrap_or_else(|e| machinery_error(&ctx.id, &format!("bad choices: {e}")));
            replay_into(cfg, &ch, &choices, &mut rep).unwrap_or_else(|e| machinery_error(&ctx.id, &e));
        }
    } else {
        // ---- E1
        let offs = [0u64, u64::MAX - n];
        let cases: Vec<(u32, u64)> = (0..(1u32 << n)).flat_map(|m| offs.iter().map(move |o| (m, *o))).collect();
        let pure = par_cases(cases, |(mask, off), rep| {
            let synced: BTreeSet<u64> = (0..n).filter(|i| mask >> i & 1 == 1).map(|i| off + 1 + i).collect();
            let mut heads: Vec<u64> = (0..=n + 1).map(|i| off.saturating_add(i)).collect();
            heads.push(0);
            heads.sort();
            heads.dedup();
            for &head in &heads {
                for limit in [0, 1, 2, 3, 5, n, n + 1, u64::MAX] {
                    let key = fnv64(format!("{mask}/{off}/{head}/{limit}").as_bytes());
                    eval_pure(&synced, head, limit, key, rep);
                }
            }
        });
        let pure_evals = pure.evaluations;
        rep.states += pure.distinct();
        rep.merge_in(pure);
        rep.extra("pure_evaluations", json!(pure_evals));
        // ---- E3
        let cfgs = worker_configs(ctx.tier);
        let per_cfg_cap = Duration::from_secs(ctx.tier.pick(45, 780) / cfgs.len() as u64);
        for (cfg, bound) in &cfgs {
            let ch = Chains::build(cfg.old_upto, cfg.total).unwrap_or_else(|e| machinery_error(&ctx.id, &e));
            explore_cfg(cfg, &ch, *bound, per_cfg_cap, u64::MAX, &mut rep).unwrap_or_else(|e| machinery_error(&ctx.id, &e));
        }
        coverage_into(&mut rep);
    }
    finish(
        &ctx,
        rep,
        Spec {
            rule: "E1: all 2^N synced sets over heights off+1..=off+N (N=10 quick, 12 thorough; off in {0, u64::MAX-N}) x head in {0} ∪ off..=off+N+1 x limit in {0,1,2,3,5,N,N+1,u64::MAX}, distinct = (set, off, head, limit), non-trivial = non-empty synced set and non-empty result; E3: envdfs on the real Syncer+InMemoryStore+mocked P2p with <= 3 (quick) / <= 4 (thorough) non-default environment choices on config old6-batch4 and one less on old6-batch4-prefilled-9-12 and all-in-window-batch7, menu = union of the C25 and C38 menus (answers honest/prefix/first-only/error/fork/splices/empty, head answers honest/stale/advanced/error, header-sub next/skip, prune any stored out-of-window height [as an event at quiescence and as a choice point right before each get_stored_header_ranges / get_pruned_ranges / get_by_height / insert call of the syncer], disconnect/reconnect, 61 s), every announced batch and every header-ex range request checked against the store at that moment",
            assumptions: &[
                "the network head of the statement is read as max(subjective head, highest synced height): synced headers are verified network headers, so a subjective head below them (possible after a restart with a lagging trusted peer) does not make the gap below the highest synced range 'above the network head'",
                "only the batches that are requested are constrained: neither a maximal batch size nor a non-empty result is demanded (no liveness clause in the statement; convergence is C38's); an empty result while missing insertable heights exist is recorded as outcome class 'empty:although-missing-heights-exist', not as a violation; the non-empty classes are required, so a function that never returns a batch makes the run vacuous (exit 2)",
                "worker part: same assumptions as C25/C38 (Time::now() not seamed, >= 2 h margins; mock behind the header-ex client; one environment event at a time)",
            ],
            required_classes: &[
                "empty:nothing-missing",
                "above-highest-synced",
                "below-highest-range",
                "completed",
                "cov:batches-checked",
                "cov:header-requests-checked",
                "cov:prunes",
                "cov:prunes-between-store-calls",
            ],
            exhaustive: true,
        },
    );
}
