//! Shared system driver of the session family (C26, C27), engine E3.
//!
//! The real `HeaderSession` / `P2p::get_verified_headers_range` run as a task of a tokio
//! current-thread runtime with the clock paused; the harness owns the command receiver of
//! the mocked `P2p` (`VP2p`).  One *environment event* = answering one outstanding
//! `HeaderExRequest`.  Between events the system is settled (`sleep(1 ms)` on the paused
//! clock returns only when every other task is blocked).
#![allow(dead_code)]

use celestia_proto::p2p::pb::HeaderRequest;
use celestia_proto::p2p::pb::header_request::Data;
use celestia_types::ExtendedHeader;
use celestia_types::test_utils::ExtendedHeaderGenerator;
use lumina_node::node::{HeaderExError, P2pError};
use lumina_node::verif::mock_p2p::{VCmd, VP2p};
use lv_core::*;
use std::collections::BTreeSet;
use std::future::Future;
use std::time::Duration;
use tokio::sync::oneshot;

pub type SessResult = Result<Vec<ExtendedHeader>, P2pError>;

/// A generated chain `first ..= first + len - 1` (generated once per run).
pub struct Chain {
    pub first: u64,
    pub headers: Vec<ExtendedHeader>,
}

impl Chain {
    pub fn generate(len: u64) -> Chain {
        let mut g = ExtendedHeaderGenerator::new();
        let headers = g.next_many(len);
        assert_eq!(headers.len() as u64, len);
        for (i, h) in headers.iter().enumerate() {
            assert_eq!(h.height(), 1 + i as u64, "generator produced unexpected height");
        }
        Chain { first: 1, headers }
    }
    pub fn last(&self) -> u64 {
        self.first + self.headers.len() as u64 - 1
    }
    pub fn get(&self, h: u64) -> Option<&ExtendedHeader> {
        if h < self.first {
            return None;
        }
        self.headers.get((h - self.first) as usize)
    }
    /// `n` headers starting at height `h` (all must exist).
    pub fn span(&self, h: u64, n: u64) -> Vec<ExtendedHeader> {
        (h..h + n).map(|x| self.get(x).expect("span inside chain").clone()).collect()
    }
}

/// An outstanding header-ex request held by the environment.
pub struct Pending {
    pub seq: u64,
    pub origin: Option<u64>,
    pub amount: u64,
    pub respond_to: oneshot::Sender<SessResult>,
}

/// Everything the driver observed while settling.
pub struct Drained {
    pub new: Vec<Pending>,
    pub unexpected: Vec<String>,
}

pub async fn settle() {
    tokio::time::sleep(Duration::from_millis(1)).await;
}

/// Settles and drains every queued command, repeating until nothing new shows up.
pub async fn settle_and_drain(vp: &mut VP2p, seq: &mut u64) -> Drained {
    let mut d = Drained { new: vec![], unexpected: vec![] };
    loop {
        settle().await;
        let mut got = false;
        while let Some(cmd) = vp.try_next_cmd() {
            got = true;
            match cmd {
                VCmd::HeaderEx { request, respond_to } => {
                    let HeaderRequest { data, amount } = request;
                    let origin = match data {
                        Some(Data::Origin(o)) => Some(o),
                        _ => None,
                    };
                    *seq += 1;
                    d.new.push(Pending { seq: *seq, origin, amount, respond_to });
                }
                other => d.unexpected.push(format!("{other:?}").chars().take(80).collect()),
            }
        }
        if !got {
            return d;
        }
    }
}

/// Runs `body` on a fresh paused current-thread runtime; a panic of the *driver* (not of
/// the task under test, which is caught by its join handle) comes back as `Err`.
pub fn on_paused_runtime<T>(body: impl Future<Output = T>) -> Result<T, String> {
    guard(|| {
        let rt = tokio::runtime::Builder::new_current_thread()
            .enable_time()
            .start_paused(true)
            .build()
            .expect("runtime");
        let out = rt.block_on(body);
        drop(rt);
        out
    })
}

pub fn heights(v: &[ExtendedHeader]) -> Vec<u64> {
    v.iter().map(|h| h.height()).collect()
}

/// Compact rendering of a height list for messages.
pub fn show_heights(v: &[u64]) -> String {
    if v.len() <= 12 {
        format!("{v:?}")
    } else {
        format!("[{}, {}, {}, .. {} more .., {}, {}] (len {})", v[0], v[1], v[2], v.len() - 5, v[v.len() - 2], v[v.len() - 1], v.len())
    }
}

pub fn err_class(e: &P2pError) -> String {
    match e {
        P2pError::HeaderEx(HeaderExError::HeaderNotFound) => "headerex:not-found".into(),
        P2pError::HeaderEx(HeaderExError::InvalidResponse) => "headerex:invalid-response".into(),
        P2pError::HeaderEx(HeaderExError::InvalidRequest) => "headerex:invalid-request".into(),
        P2pError::HeaderEx(_) => "headerex:other".into(),
        P2pError::WorkerDied => "worker-died".into(),
        other => format!("other:{}", other.to_string().chars().take(40).collect::<String>()),
    }
}

/// Incremental FNV-1a over the observation trace.
pub struct Obs(pub u64);
impl Obs {
    pub fn new() -> Obs {
        Obs(0xcbf29ce484222325)
    }
    pub fn add(&mut self, s: &str) {
        for b in s.as_bytes().iter().chain(b"|") {
            self.0 ^= *b as u64;
            self.0 = self.0.wrapping_mul(0x100000001b3);
        }
    }
}

pub fn set_of(range: std::ops::RangeInclusive<u64>) -> BTreeSet<u64> {
    range.collect()
}

/// A `tracing` subscriber that enables every callsite and discards every event: with it
/// installed the arguments of the `debug!`/`trace!` lines of the code under test are
/// evaluated exactly as they are under `RUST_LOG=trace` (arithmetic inside a log line is
/// code that can panic too), without producing output.
struct EvaluateAndDiscard;

impl tracing::Subscriber for EvaluateAndDiscard {
    fn enabled(&self, _: &tracing::Metadata<'_>) -> bool {
        true
    }
    fn new_span(&self, _: &tracing::span::Attributes<'_>) -> tracing::span::Id {
        tracing::span::Id::from_u64(1)
    }
    fn record(&self, _: &tracing::span::Id, _: &tracing::span::Record<'_>) {}
    fn record_follows_from(&self, _: &tracing::span::Id, _: &tracing::span::Id) {}
    fn event(&self, _: &tracing::Event<'_>) {}
    fn enter(&self, _: &tracing::span::Id) {}
    fn exit(&self, _: &tracing::span::Id) {}
}

pub fn evaluate_log_arguments() {
    let _ = tracing::subscriber::set_global_default(EvaluateAndDiscard);
}
