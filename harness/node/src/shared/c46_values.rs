//! C46 — deterministic families of *valid* values of every public data type whose wire forms
//! are checked by `bin/c46.rs`.
//!
//! Structure is enumerated (simplest first); only payload bytes come from
//! `lv_core::Fill(seed)`.  Fixtures of other families are included read-only:
//! `types/src/shared/chain.rs` (deterministic multi-validator header builder, self-checked
//! with the real `validate()`) and `types/src/shared/eds_fix.rs` (structured data squares,
//! extended by the real `from_ods`, roots cross-checked against an independent NMT).
#![allow(dead_code)]

#[path = "../../../types/src/shared/chain.rs"]
pub mod chain;
#[path = "../../../types/src/shared/eds_fix.rs"]
pub mod eds_fix;

use std::collections::BTreeMap;
use std::ops::RangeInclusive;

use celestia_proto::proof::pb::Proof as RawNmtRangeProof;
use celestia_proto::share::eds::byzantine::pb::BadEncoding as RawBefp;
use celestia_proto::share::eds::byzantine::pb::Share as RawShareWithProof;
use celestia_types::consts::appconsts::AppVersion;
use celestia_types::nmt::{Namespace, NamespaceProof, NamespacedHashExt};
use celestia_types::state::AccAddress;
use celestia_types::{
    AxisType, Blob, DataAvailabilityHeader, ExtendedDataSquare, ExtendedHeader, MerkleProof,
    RowProof, Share, ShareProof,
};
use lumina_node::block_ranges::BlockRanges;
use lv_core::Fill;
use serde::{Deserialize, Serialize};

use chain::{DahSpec, HSpec, Keys, VoteKind};
use eds_fix::{Fixture, NsB};

pub const NS: usize = 29;
pub const SHARE: usize = 512;

// ---------------------------------------------------------------------------------------
// namespaces

/// The namespace family: every named constant, the extremes of both versions, every single
/// set bit and every single 0xff byte of a version-0 id, all 256 version-255 namespaces and
/// 16 seeded version-0 ids.
pub fn namespaces(seed: u64) -> Vec<(String, Namespace)> {
    let mut out: Vec<(String, Namespace)> = vec![
        ("const/TRANSACTION".into(), Namespace::TRANSACTION),
        ("const/PAY_FOR_BLOB".into(), Namespace::PAY_FOR_BLOB),
        ("const/PRIMARY_RESERVED_PADDING".into(), Namespace::PRIMARY_RESERVED_PADDING),
        ("const/MAX_PRIMARY_RESERVED".into(), Namespace::MAX_PRIMARY_RESERVED),
        ("const/MIN_SECONDARY_RESERVED".into(), Namespace::MIN_SECONDARY_RESERVED),
        ("const/TAIL_PADDING".into(), Namespace::TAIL_PADDING),
        ("const/PARITY_SHARE".into(), Namespace::PARITY_SHARE),
        ("v0/zero".into(), Namespace::const_v0([0; 10])),
        ("v0/max".into(), Namespace::const_v0([0xff; 10])),
    ];
    for bit in 0..80usize {
        let mut id = [0u8; 10];
        id[bit / 8] = 1 << (bit % 8);
        out.push((format!("v0/bit{bit}"), Namespace::const_v0(id)));
    }
    for byte in 0..10usize {
        let mut id = [0u8; 10];
        id[byte] = 0xff;
        out.push((format!("v0/ff-byte{byte}"), Namespace::const_v0(id)));
        // base64 alphabet corners: 0xfb / 0xfe / 0x3e / 0x3f produce '+' and '/'
        let mut id = [0xfbu8; 10];
        id[byte] = 0x3e;
        out.push((format!("v0/b64-corner{byte}"), Namespace::const_v0(id)));
    }
    for last in 0..=255u8 {
        out.push((format!("v255/{last}"), Namespace::const_v255(last)));
    }
    for i in 0..16u64 {
        let id: [u8; 10] = Fill::new(seed, 0x4E53_0000 + i).array();
        out.push((format!("v0/seeded{i}"), Namespace::const_v0(id)));
    }
    out
}

// ---------------------------------------------------------------------------------------
// headers

#[derive(Clone, Debug, PartialEq, Serialize, Deserialize)]
pub struct HdrSpec {
    pub chain_id: String,
    pub height: u64,
    pub secs: i64,
    pub nanos: u32,
    pub app: u64,
    pub vals: Vec<(u32, u64)>,
    pub votes: Vec<(u32, VoteKind)>,
    pub round: u16,
    pub dah: DahSpec,
    /// optional header hashes that are absent: bit 0 last_commit_hash, bit 1
    /// last_results_hash, bit 2 evidence_hash
    pub absent: u8,
    /// proposer priorities of the validators: 0 = all zero, 1 = mixed signs around zero,
    /// 2 = extremes (i64::MIN / i64::MAX alternating)
    #[serde(default)]
    pub prio: u8,
    /// length of the application hash (CometBFT allows any; 32 is usual, 0 at genesis)
    #[serde(default = "default_app_hash_len")]
    pub app_hash_len: usize,
}

fn default_app_hash_len() -> usize {
    32
}

impl HdrSpec {
    pub fn base() -> HdrSpec {
        HdrSpec {
            chain_id: "private".into(),
            height: 1,
            secs: chain::BASE_SECS,
            nanos: 0,
            app: 2,
            vals: vec![(0, 5000)],
            votes: vec![],
            round: 0,
            dah: DahSpec::Synthetic(2),
            absent: 0,
            prio: 0,
            app_hash_len: 32,
        }
    }
    pub fn id(&self) -> String {
        format!(
            "hdr/{}/h{}/t{}.{}/app{}/vals{:?}/votes{:?}/r{}/{:?}/abs{}/prio{}/apphash{}",
            self.chain_id, self.height, self.secs, self.nanos, self.app, self.vals, self.votes, self.round, self.dah, self.absent, self.prio, self.app_hash_len
        )
    }
}

/// Builds the header of a spec with the deterministic chain builder; the result is
/// self-checked with the real `validate()` (failure = machinery error).
pub fn build_header(seed: u64, s: &HdrSpec) -> ExtendedHeader {
    let keys = Keys::new(seed, 8);
    let votes: BTreeMap<u32, VoteKind> = s.votes.iter().cloned().collect();
    // chain.rs derives fill streams from `height * 16`: build at a small height and move the
    // header to the wanted one before sealing (the commit is re-signed for the final header)
    let build_height = if s.height == 1 { 1 } else { 2 + s.height % 1000 };
    let spec = HSpec {
        chain_id: s.chain_id.clone(),
        height: build_height,
        time: chain::time_at(s.secs, s.nanos),
        app: s.app,
        vals: s.vals.clone(),
        next_vals: s.vals.clone(),
        votes: votes.clone(),
        round: s.round,
        salt: 46,
        dah: match s.dah {
            DahSpec::Synthetic(w) if w > 128 => DahSpec::Synthetic(2),
            d => d,
        },
    };
    let mut b = chain::build(&keys, &spec, None);
    let wide = matches!(s.dah, DahSpec::Synthetic(w) if w > 128);
    if let (true, DahSpec::Synthetic(w)) = (wide, s.dah) {
        b.eh.dah = synthetic_dah(seed, w);
        chain::link(&mut b.eh);
    }
    if s.prio != 0 {
        // proposer priorities are not part of the validator-set hash: no re-sealing needed
        let pr = |i: usize| -> i64 {
            match (s.prio, i % 2) {
                (1, 0) => -1500 + 1000 * i as i64,
                (1, _) => 1500 - 1000 * i as i64,
                (_, 0) => i64::MIN,
                _ => i64::MAX,
            }
        };
        let proposer_addr = b.eh.validator_set.proposer.as_ref().map(|p| p.address);
        for (i, v) in b.eh.validator_set.validators.iter_mut().enumerate() {
            v.proposer_priority = pr(i).into();
            if Some(v.address) == proposer_addr {
                b.eh.validator_set.proposer = Some(v.clone());
            }
        }
    }
    let other_app_hash = s.app_hash_len != 32;
    if other_app_hash {
        b.eh.header.app_hash = Fill::new(seed, 0xA99).bytes(s.app_hash_len).try_into().expect("app hash");
    }
    if s.absent != 0 || build_height != s.height || wide || other_app_hash {
        b.eh.header.height = s.height.try_into().expect("height fits i64");
        if s.absent & 1 != 0 {
            b.eh.header.last_commit_hash = None;
        }
        if s.absent & 2 != 0 {
            b.eh.header.last_results_hash = None;
        }
        if s.absent & 4 != 0 {
            b.eh.header.evidence_hash = None;
        }
        let order = b.order.clone();
        chain::seal(&keys, &mut b.eh, &order, &votes);
    }
    chain::must_validate("C46", &s.id(), &b.eh);
    b.eh
}

/// The header family.  `deep` = thorough tier (products of the dimensions instead of one
/// dimension at a time).
pub fn header_specs(deep: bool) -> Vec<HdrSpec> {
    let base = HdrSpec::base();
    let mut out = vec![base.clone()];
    let heights: &[u64] = &[2, 3, 27, 1 << 31, (1 << 53) + 1, i64::MAX as u64 - 1, i64::MAX as u64];
    let times: &[(i64, u32)] = &[
        (chain::BASE_SECS, 1),
        (chain::BASE_SECS, 500_000_000),
        (chain::BASE_SECS, 999_999_999),
        (chain::BASE_SECS + 86_399, 123_456_789),
        (1, 0),
        // far future still representable in RFC 3339
        (253_402_300_000, 7),
    ];
    let sets: Vec<Vec<(u32, u64)>> = vec![
        vec![(0, 1)],
        vec![(0, 10), (1, 10)],
        vec![(0, 10), (1, 20), (2, 30), (3, 40)],
        vec![(0, 1), (1, 1), (2, 1), (3, 1), (4, 1), (5, 1), (6, 1)],
        vec![(0, (i64::MAX / 8) as u64)],
    ];
    let dahs: Vec<DahSpec> = vec![
        DahSpec::Synthetic(4),
        DahSpec::Synthetic(8),
        DahSpec::Synthetic(32),
        DahSpec::Synthetic(128),
        DahSpec::Eds(1),
        DahSpec::Eds(2),
        DahSpec::Eds(4),
    ];
    let longest = "c".repeat(50);
    let chains = ["celestia", "mocha-4", "a", longest.as_str()];
    for h in heights {
        out.push(HdrSpec { height: *h, ..base.clone() });
    }
    for (secs, nanos) in times {
        out.push(HdrSpec { secs: *secs, nanos: *nanos, ..base.clone() });
    }
    for vals in &sets {
        out.push(HdrSpec { vals: vals.clone(), ..base.clone() });
    }
    // vote patterns that keep > 2/3 of the power on the block
    let four = sets[2].clone();
    for votes in [
        vec![(0u32, VoteKind::Nil)],
        vec![(0, VoteKind::Absent)],
        vec![(0, VoteKind::Absent), (1, VoteKind::Nil)],
    ] {
        out.push(HdrSpec { vals: four.clone(), votes, ..base.clone() });
    }
    let seven = sets[3].clone();
    out.push(HdrSpec { vals: seven.clone(), votes: vec![(1, VoteKind::Nil), (5, VoteKind::Absent)], ..base.clone() });
    for round in [1u16, 255, u16::MAX] {
        out.push(HdrSpec { round, ..base.clone() });
    }
    for dah in &dahs {
        out.push(HdrSpec { dah: *dah, ..base.clone() });
    }
    for app in 1..=7u64 {
        out.push(HdrSpec { app, ..base.clone() });
    }
    for c in chains {
        out.push(HdrSpec { chain_id: c.into(), ..base.clone() });
    }
    for absent in 1..8u8 {
        out.push(HdrSpec { absent, height: 2, ..base.clone() });
    }
    for prio in [1u8, 2] {
        out.push(HdrSpec { prio, ..base.clone() });
        out.push(HdrSpec { prio, vals: four.clone(), ..base.clone() });
        out.push(HdrSpec { prio, vals: seven.clone(), votes: vec![(3, VoteKind::Absent)], ..base.clone() });
    }
    for app_hash_len in [0usize, 1, 20, 48] {
        out.push(HdrSpec { app_hash_len, height: 2, ..base.clone() });
    }
    out.push(HdrSpec { dah: DahSpec::Synthetic(256), app: 3, height: 9, ..base.clone() });
    out.push(HdrSpec { dah: DahSpec::Synthetic(1024), app: 6, height: 10, ..base.clone() });
    if deep {
        for h in [1u64, 2, (1 << 53) + 1, i64::MAX as u64] {
            for (secs, nanos) in [(chain::BASE_SECS, 0u32), (chain::BASE_SECS + 59, 999_999_999), (1, 1_000)] {
                for (vi, vals) in sets.iter().enumerate().take(4) {
                    for vote in 0..3u8 {
                        let votes = match (vote, vi) {
                            (0, _) => vec![],
                            (1, 2) => vec![(0u32, VoteKind::Nil)],
                            (2, 2) => vec![(0, VoteKind::Absent)],
                            (1, 3) => vec![(6, VoteKind::Nil), (2, VoteKind::Absent)],
                            (2, 3) => vec![(0, VoteKind::Absent), (1, VoteKind::Absent)],
                            _ => continue,
                        };
                        for dah in [DahSpec::Synthetic(2), DahSpec::Eds(2), DahSpec::Synthetic(16)] {
                            for absent in [0u8, 7] {
                                for round in [0u16, 3] {
                                    out.push(HdrSpec {
                                        chain_id: "deep".into(),
                                        height: h,
                                        secs,
                                        nanos,
                                        app: 1 + (h % 7),
                                        vals: vals.clone(),
                                        votes: votes.clone(),
                                        round,
                                        dah,
                                        absent,
                                        prio: if round == 0 { absent & 1 } else { 2 - (absent & 1) },
                                        app_hash_len: if absent == 0 { 32 } else { 20 },
                                    });
                                }
                            }
                        }
                    }
                }
            }
        }
    }
    let mut uniq: Vec<HdrSpec> = vec![];
    let mut seen = std::collections::BTreeSet::new();
    for s in out {
        if seen.insert(s.id()) {
            uniq.push(s);
        }
    }
    uniq
}

// ---------------------------------------------------------------------------------------
// squares

#[derive(Clone, Copy, Debug, PartialEq, Eq, Serialize, Deserialize)]
pub struct SquareId {
    /// extended width
    pub w: usize,
    pub layout: usize,
}

pub fn square(seed: u64, id: SquareId) -> Fixture {
    Fixture::build(id.w, id.layout, seed).unwrap_or_else(|e| lv_core::machinery_error("C46", &format!("fixture {id:?}: {e}")))
}

pub fn ns_of(b: &NsB) -> Namespace {
    eds_fix::namespace(b)
}

/// Namespaces asked of an axis tree: every namespace present in the square, a gap after
/// each of them, one below everything, the largest version-0 namespace, tail padding and
/// the parity namespace.
pub fn probe_namespaces(fx: &Fixture) -> Vec<Namespace> {
    let mut v: Vec<NsB> = fx.present.clone();
    for i in 0..(fx.present.len() as u32 + 1) {
        v.push(eds_fix::ns_user_gap(i));
    }
    v.push(eds_fix::ns_v0(0));
    v.push(eds_fix::ns_tx());
    v.push(eds_fix::ns_v0_max());
    v.push(eds_fix::ns_min_secondary_reserved());
    v.push(eds_fix::ns_tail());
    v.push(eds_fix::ns_parity());
    v.sort();
    v.dedup();
    v.iter().map(ns_of).collect()
}

/// Every namespace proof the real trees of the square hand out: complete-namespace proofs
/// (presence, absence with a leaf, absence outside the root's range) for every probe
/// namespace on every row and column, and range proofs of every leaf range (every single
/// leaf when the width exceeds 8).
pub fn namespace_proofs(fx: &Fixture) -> Vec<(String, NamespaceProof)> {
    let w = fx.width;
    let probes = probe_namespaces(fx);
    let mut out = vec![];
    for (axis, name) in [(AxisType::Row, "row"), (AxisType::Col, "col")] {
        for i in 0..w {
            let mut nmt = fx.eds.axis_nmt(axis, i as u16).expect("axis nmt");
            for ns in &probes {
                let p: NamespaceProof = nmt.get_namespace_proof(**ns).into();
                out.push((format!("{name}{i}/ns/{}", hex::encode(ns.as_bytes())), p));
            }
            for a in 0..w {
                for b in a + 1..=w {
                    if w > 8 && b != a + 1 && !(a == 0 && b == w) {
                        continue;
                    }
                    let (_, p) = nmt.get_range_with_proof(a..b);
                    out.push((format!("{name}{i}/range/{a}..{b}"), p.into()));
                }
            }
        }
    }
    out
}

/// The same proof with the `ignore_max_ns` flag cleared (a valid value of the type; the flag
/// is carried by the protobuf/JSON form but not by the `NMTProof` message).
pub fn with_flag_cleared(p: &NamespaceProof) -> NamespaceProof {
    use nmt_rs::nmt_proof::NamespaceProof as P;
    match p.clone().into_inner() {
        P::AbsenceProof { proof, leaf, .. } => P::AbsenceProof { proof, ignore_max_ns: false, leaf }.into(),
        P::PresenceProof { proof, .. } => P::PresenceProof { proof, ignore_max_ns: false }.into(),
    }
}

pub fn row_proofs(fx: &Fixture) -> Vec<(String, RowProof)> {
    let w = fx.width;
    let mut out = vec![];
    for a in 0..w {
        for b in a..w {
            if w > 8 && b != a && !(a == 0 && b == w - 1) && b != a + 1 {
                continue;
            }
            let p = fx.dah.row_proof(a as u16..=b as u16).expect("row proof");
            out.push((format!("rows{a}..={b}"), p));
        }
    }
    out
}

/// Share proofs of contiguous share ranges of one namespace in the original square: every
/// whole namespace, every single share, and (width <= 8) every sub-range of a namespace.
/// Each is self-checked with the real `verify` against the DAH hash.
pub fn share_proofs(fx: &Fixture) -> Vec<(String, ShareProof)> {
    let k = fx.k;
    let mut out = vec![];
    // namespace runs over the row-major ODS
    let cells: Vec<NsB> = (0..k * k).map(|i| fx.cell_ns(i / k, i % k)).collect();
    let mut runs: Vec<(usize, usize)> = vec![];
    let mut s = 0;
    for i in 1..=cells.len() {
        if i == cells.len() || cells[i] != cells[s] {
            runs.push((s, i));
            s = i;
        }
    }
    for (rs, re) in runs {
        let ns = ns_of(&cells[rs]);
        let mut ranges: Vec<(usize, usize)> = vec![(rs, re)];
        for a in rs..re {
            if (a, a + 1) != (rs, re) {
                ranges.push((a, a + 1));
            }
        }
        if fx.width <= 8 {
            for a in rs..re {
                for b in a + 2..=re {
                    if (a, b) != (rs, re) {
                        ranges.push((a, b));
                    }
                }
            }
        }
        for (a, b) in ranges {
            let (r0, r1) = (a / k, (b - 1) / k);
            let mut data: Vec<[u8; SHARE]> = vec![];
            let mut proofs: Vec<NamespaceProof> = vec![];
            for r in r0..=r1 {
                let c0 = if r == r0 { a % k } else { 0 };
                let c1 = if r == r1 { (b - 1) % k + 1 } else { k };
                let mut nmt = fx.eds.row_nmt(r as u16).expect("row nmt");
                let (leaves, p) = nmt.get_range_with_proof(c0..c1);
                for l in leaves {
                    data.push(l.try_into().expect("share size"));
                }
                proofs.push(p.into());
            }
            let sp = ShareProof {
                data,
                namespace_id: ns,
                share_proofs: proofs,
                row_proof: fx.dah.row_proof(r0 as u16..=r1 as u16).expect("row proof"),
            };
            if let Err(e) = sp.verify(fx.dah.hash()) {
                lv_core::machinery_error("C46", &format!("share proof fixture {a}..{b} of w={} l={} does not verify: {e}", fx.width, fx.layout));
            }
            out.push((format!("ns/{}/shares{a}..{b}", hex::encode(ns.as_bytes())), sp));
        }
    }
    out
}

pub fn merkle_proofs(seed: u64, total: usize) -> Vec<(String, MerkleProof)> {
    let leaves: Vec<Vec<u8>> = (0..total).map(|i| Fill::new(seed, 0x3E00 + i as u64).bytes(1 + 7 * i)).collect();
    (0..total)
        .map(|i| (format!("leaf{i}of{total}"), MerkleProof::new(i, &leaves).expect("merkle proof").0))
        .collect()
}

// ---------------------------------------------------------------------------------------
// bad-encoding fraud proofs (fields are private: values are obtained by decoding a raw
// message assembled here from the real trees of the square)

#[derive(Clone, Debug, PartialEq, Serialize, Deserialize)]
pub struct BefpSpec {
    /// 0 = row, 1 = column
    pub axis: u8,
    pub index: usize,
    /// which shares are present (bit j = share j of the axis)
    pub present: u64,
    /// proof axis per share (bit j: 0 = row tree, 1 = column tree)
    pub proof_axes: u64,
    pub height: u64,
}

pub fn befp_specs(w: usize) -> Vec<BefpSpec> {
    assert!(w <= 64, "presence masks are 64 bits wide");
    let all = if w >= 64 { u64::MAX } else { (1u64 << w) - 1 };
    let evens = 0x5555_5555_5555_5555u64 & all;
    let low_half = (1u64 << (w / 2)) - 1;
    let mut out = vec![];
    for axis in 0..2u8 {
        for index in 0..w {
            if w > 4 && !(index == 0 || index == w / 2 || index == w - 1) {
                continue;
            }
            for present in [all, evens, all & !evens, low_half, all & !low_half] {
                for proof_axes in [0u64, all, evens] {
                    out.push(BefpSpec { axis, index, present, proof_axes, height: 1 + index as u64 });
                }
            }
        }
    }
    out.push(BefpSpec { axis: 0, index: 0, present: all, proof_axes: 0, height: i64::MAX as u64 });
    // small widths make some masks coincide
    let mut uniq: Vec<BefpSpec> = vec![];
    for s in out {
        if !uniq.contains(&s) {
            uniq.push(s);
        }
    }
    uniq
}

pub fn raw_nmt_proof(p: &nmt_rs::simple_merkle::proof::Proof<celestia_types::nmt::NamespacedSha2Hasher>, ) -> RawNmtRangeProof {
    RawNmtRangeProof {
        start: p.range.start as i64,
        end: p.range.end as i64,
        nodes: p.siblings.iter().map(|h| h.to_vec()).collect(),
        leaf_hash: vec![],
        is_max_namespace_ignored: true,
    }
}

/// The raw bad-encoding message of a spec over the (honestly encoded) square: structurally
/// what a full node would send; `header_hash` is seeded.
pub fn raw_befp(fx: &Fixture, seed: u64, s: &BefpSpec) -> RawBefp {
    let w = fx.width;
    let mut shares = Vec::with_capacity(w);
    for j in 0..w {
        if s.present >> j & 1 == 0 {
            shares.push(RawShareWithProof::default());
            continue;
        }
        let (r, c) = if s.axis == 0 { (s.index, j) } else { (j, s.index) };
        let by_col = s.proof_axes >> j & 1 == 1;
        let (mut nmt, idx) = if by_col {
            (fx.eds.column_nmt(c as u16).expect("nmt"), r)
        } else {
            (fx.eds.row_nmt(r as u16).expect("nmt"), c)
        };
        let (share, proof) = nmt.get_index_with_proof(idx);
        let mut data = fx.cell_ns(r, c).to_vec();
        data.extend_from_slice(&share);
        shares.push(RawShareWithProof {
            data,
            proof: Some(raw_nmt_proof(&proof)),
            proof_axis: by_col as i32,
        });
    }
    RawBefp {
        header_hash: Fill::new(seed, 0xBEF0 + s.index as u64).bytes(32),
        height: s.height,
        shares,
        index: s.index as u32,
        axis: s.axis as i32,
    }
}

// ---------------------------------------------------------------------------------------
// blobs

#[derive(Clone, Debug, PartialEq, Serialize, Deserialize)]
pub struct BlobSpec {
    pub len: usize,
    /// 0 = no signer (share version 0), 1 = signer (share version 1)
    pub signer: bool,
    /// namespace choice
    pub ns: u8,
    /// 0 seeded bytes, 1 all zero, 2 all 0xff
    pub fill: u8,
    /// None, or the index of the first share
    pub index: Option<u64>,
    pub app: u64,
}

pub fn blob_lengths(deep: bool) -> Vec<usize> {
    // first sparse share carries 478 bytes (458 with a signer), continuation shares 482
    let mut v = vec![1, 2, 3, 457, 458, 459, 477, 478, 479, 480, 939, 940, 941, 959, 960, 961, 962, 1441, 1442, 1443];
    if deep {
        v.extend([4, 64, 256, 481, 482, 483, 1923, 1924, 1925, 4096, 65_536, 1 << 20]);
    }
    v
}

pub fn blob_namespace(seed: u64, which: u8) -> Namespace {
    match which {
        0 => Namespace::const_v0([0, 0, 0, 0, 0, 1, 2, 3, 4, 5]),
        1 => Namespace::const_v0([0xff; 10]),
        2 => Namespace::const_v0([0, 0, 0, 0, 0, 0, 0, 0, 1, 0]),
        _ => Namespace::const_v0(Fill::new(seed, 0xB10B).array()),
    }
}

pub fn blob_specs(deep: bool) -> Vec<BlobSpec> {
    let mut out = vec![];
    for len in blob_lengths(deep) {
        for signer in [false, true] {
            for (ns, fill, index) in [
                (0u8, 0u8, None),
                (0, 0, Some(0u64)),
                (1, 1, Some(5)),
                (2, 2, Some(i64::MAX as u64)),
                (3, 0, Some(1 << 53)),
            ] {
                if !deep && len > 1000 && ns != 0 {
                    continue;
                }
                out.push(BlobSpec { len, signer, ns, fill, index, app: if signer { 3 } else { 2 } });
            }
        }
    }
    for app in [1u64, 4, 5, 6, 7] {
        out.push(BlobSpec { len: 600, signer: app >= 3, ns: 0, fill: 0, index: None, app });
    }
    out
}

pub fn app_version(v: u64) -> AppVersion {
    AppVersion::from_u64(v).expect("app version")
}

pub fn build_blob(seed: u64, s: &BlobSpec) -> Blob {
    let data = match s.fill {
        1 => vec![0u8; s.len],
        2 => vec![0xffu8; s.len],
        _ => Fill::new(seed, 0xB10B_0000 + s.len as u64).bytes(s.len),
    };
    let signer = if s.signer {
        let b: [u8; 20] = Fill::new(seed, 0x516E).array();
        Some(AccAddress::try_from(&b[..]).expect("address"))
    } else {
        None
    };
    let mut blob = Blob::new(blob_namespace(seed, s.ns), data, signer, app_version(s.app))
        .unwrap_or_else(|e| lv_core::machinery_error("C46", &format!("Blob::new failed for {s:?}: {e}")));
    blob.index = s.index;
    blob
}

// ---------------------------------------------------------------------------------------
// block ranges

/// Decodes a base-3 code over `n` heights (`off+1 ..= off+n`): digit 0 = height absent,
/// 1 = height starts a range, 2 = height continues the range of the previous height.
/// `None` if the code is not well formed (a 2 after an absent height).
pub fn ranges_of_code(n: u32, off: u64, mut code: u64) -> Option<Vec<RangeInclusive<u64>>> {
    let mut out: Vec<RangeInclusive<u64>> = vec![];
    let mut prev = 0u64;
    for i in 0..n as u64 {
        let d = code % 3;
        code /= 3;
        let h = off + 1 + i;
        match d {
            0 => {}
            1 => out.push(h..=h),
            _ => {
                if prev == 0 {
                    return None;
                }
                let last = out.last_mut().unwrap();
                *last = *last.start()..=h;
            }
        }
        prev = d;
    }
    Some(out)
}

pub fn block_ranges(v: &[RangeInclusive<u64>]) -> BlockRanges {
    BlockRanges::try_from(v).unwrap_or_else(|e| lv_core::machinery_error("C46", &format!("block ranges fixture {v:?} refused: {e}")))
}

/// True when no two ranges of the list are adjacent (the form `insert_relaxed` keeps).
pub fn is_merged(v: &[RangeInclusive<u64>]) -> bool {
    v.windows(2).all(|p| *p[0].end() + 1 < *p[1].start())
}

// ---------------------------------------------------------------------------------------
// misc

pub fn short(s: String) -> String {
    if s.len() > 700 {
        let mut cut = 700;
        while !s.is_char_boundary(cut) {
            cut -= 1;
        }
        format!("{}… ({} chars)", &s[..cut], s.len())
    } else {
        s
    }
}

/// Synthetic roots with a plausible namespace layout for any width up to 1024 (chain.rs'
/// builder stops at 128): ascending two-byte user namespaces over the original half, parity
/// namespace elsewhere, seeded digests.
pub fn synthetic_dah(seed: u64, width: usize) -> DataAvailabilityHeader {
    use celestia_types::nmt::NamespacedHash;
    let mut f = Fill::new(seed, 0xDA46_0000 + width as u64);
    let ods = width / 2;
    let mut mk = |i: usize| -> NamespacedHash {
        let (min, max) = if i < ods {
            let a = (2 * i + 1) as u16;
            let b = (2 * i + 2) as u16;
            (Namespace::new_v0(&[9, (a >> 8) as u8, a as u8]).unwrap(), Namespace::new_v0(&[9, (b >> 8) as u8, b as u8]).unwrap())
        } else {
            (Namespace::PARITY_SHARE, Namespace::PARITY_SHARE)
        };
        let mut raw = Vec::with_capacity(2 * NS + 32);
        raw.extend_from_slice(min.as_bytes());
        raw.extend_from_slice(max.as_bytes());
        raw.extend_from_slice(&f.bytes(32));
        NamespacedHash::from_raw(&raw).expect("namespaced hash")
    };
    let rows: Vec<_> = (0..width).map(&mut mk).collect();
    let cols: Vec<_> = (0..width).map(&mut mk).collect();
    DataAvailabilityHeader::new_unchecked(rows, cols)
}

pub fn empty_square_dah() -> DataAvailabilityHeader {
    DataAvailabilityHeader::from_eds(&ExtendedDataSquare::empty())
}

pub fn share_bytes(s: &Share) -> &[u8] {
    s.as_ref()
}
