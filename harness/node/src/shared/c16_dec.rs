//! C16: the decoders under test (how each one is called on a byte string) and the context
//! an input needs (request id, DAH, header ...).
#![allow(dead_code)]

use std::sync::Arc;

use celestia_proto::celestia::core::v1::proof::{Proof as RawMerkleProof, RowProof as RawRowProof, ShareProof as RawShareProof};
use celestia_proto::header::pb::ExtendedHeader as RawExtendedHeader;
use celestia_proto::p2p::pb::HeaderRequest;
use celestia_proto::proof::pb::Proof as RawProof;
use celestia_proto::share::eds::byzantine::pb::BadEncoding as RawBefp;
use celestia_types::fraud_proof::{BadEncodingFraudProof, FraudProof};
use celestia_types::hash::Hash;
use celestia_types::namespace_data::NamespaceDataId;
use celestia_types::nmt::{Namespace, NamespaceProof, NamespacedHash};
use celestia_types::row::{Row, RowId};
use celestia_types::row_namespace_data::{RowNamespaceData, RowNamespaceDataId};
use celestia_types::sample::{Sample, SampleId};
use celestia_types::{AppVersion, ExtendedHeader, MerkleProof, RowProof, ShareProof};
use lumina_node::verif::{header_ex as hx, shwap as sw};
use tendermint_proto::Protobuf;

use crate::c16_fix::Env;
use crate::c16_wire::Field;
use crate::hex_common::block_on;

#[derive(Clone, Copy, Debug, PartialEq, Eq, PartialOrd, Ord)]
pub enum D {
    ExtendedHeader,
    Sample,
    Row,
    RowNamespaceData,
    Befp,
    NmtProof,
    MerkleProof,
    RowProof,
    ShareProof,
    ShrexEds,
    ShrexSample,
    ShrexRow,
    ShrexNamespaceData,
    ShrexReqEds,
    ShrexReqRow,
    ShrexReqSample,
    ShrexReqNamespaceData,
    EdsNotification,
    BitswapSample,
    BitswapRow,
    BitswapRowNamespaceData,
    BlockContainer,
    HexRequest,
    HexResponse,
}

pub const ALL: [D; 24] = [
    D::ExtendedHeader,
    D::Sample,
    D::Row,
    D::RowNamespaceData,
    D::Befp,
    D::NmtProof,
    D::MerkleProof,
    D::RowProof,
    D::ShareProof,
    D::ShrexEds,
    D::ShrexSample,
    D::ShrexRow,
    D::ShrexNamespaceData,
    D::ShrexReqEds,
    D::ShrexReqRow,
    D::ShrexReqSample,
    D::ShrexReqNamespaceData,
    D::EdsNotification,
    D::BitswapSample,
    D::BitswapRow,
    D::BitswapRowNamespaceData,
    D::BlockContainer,
    D::HexRequest,
    D::HexResponse,
];

impl D {
    pub fn idx(self) -> usize {
        ALL.iter().position(|d| *d == self).unwrap()
    }
    pub fn name(self) -> &'static str {
        match self {
            D::ExtendedHeader => "extended-header",
            D::Sample => "sample",
            D::Row => "row",
            D::RowNamespaceData => "row-namespace-data",
            D::Befp => "befp",
            D::NmtProof => "nmt-proof",
            D::MerkleProof => "merkle-proof",
            D::RowProof => "row-proof",
            D::ShareProof => "share-proof",
            D::ShrexEds => "shrex-eds",
            D::ShrexSample => "shrex-sample",
            D::ShrexRow => "shrex-row",
            D::ShrexNamespaceData => "shrex-namespace-data",
            D::ShrexReqEds => "shrex-request-eds",
            D::ShrexReqRow => "shrex-request-row",
            D::ShrexReqSample => "shrex-request-sample",
            D::ShrexReqNamespaceData => "shrex-request-namespace-data",
            D::EdsNotification => "eds-notification",
            D::BitswapSample => "bitswap-block-sample",
            D::BitswapRow => "bitswap-block-row",
            D::BitswapRowNamespaceData => "bitswap-block-row-namespace-data",
            D::BlockContainer => "bitswap-block-container",
            D::HexRequest => "header-ex-request",
            D::HexResponse => "header-ex-response",
        }
    }
    pub fn by_name(s: &str) -> Option<D> {
        ALL.iter().copied().find(|d| d.name() == s)
    }
    /// The subprocess (family) the decoder runs in.
    pub fn family(self) -> &'static str {
        match self {
            D::ExtendedHeader | D::Sample | D::Row | D::RowNamespaceData | D::Befp | D::NmtProof | D::MerkleProof | D::RowProof | D::ShareProof => "types",
            D::HexRequest | D::HexResponse => "header-ex",
            _ => "shwap",
        }
    }
}

pub const FAMILIES: [&str; 3] = ["types", "shwap", "header-ex"];

/// How the protobuf structure of an input is laid out.
#[derive(Clone, Copy, Debug, PartialEq, Eq)]
pub enum Frame {
    /// one protobuf message
    Plain,
    /// a sequence of varint-length-delimited protobuf messages
    Seq,
    /// not protobuf (fixed-size ids, the shrex EDS payload)
    Raw,
}

/// What a decoder needs besides the bytes.
#[derive(Clone)]
pub enum Cx {
    None,
    Sample { id: SampleId, sq: usize },
    Row { id: RowId, sq: usize },
    Rnd { id: RowNamespaceDataId, sq: usize },
    Nd { id: NamespaceDataId, sq: usize },
    Eds { height: u64, sq: usize, app: u64 },
    Befp { b: usize },
    NmtProof { root: NamespacedHash, leaves: Vec<Vec<u8>>, ns: Namespace },
    Merkle { leaf: Vec<u8>, root: [u8; 32] },
    Root { root: [u8; 32] },
    Block { code: u64, expected_cid: Vec<u8> },
    HexResp { req: HeaderRequest },
}

pub type TypedGen = Arc<dyn Fn(usize) -> (String, Vec<u8>) + Send + Sync>;

pub struct Fx {
    pub d: D,
    pub name: String,
    pub cx: Cx,
    pub frame: Frame,
    pub honest: Vec<u8>,
    /// whether the honest input is expected to be accepted (fixture self-check)
    pub honest_ok: bool,
    /// structured adversaries built with the prost Raw types: ordinal -> (description, bytes)
    pub typed_n: usize,
    pub typed: Option<TypedGen>,
    /// every position x all 256 byte values (small fixed-size inputs)
    pub all_values: bool,
}

#[derive(Clone, Debug, PartialEq, Eq)]
pub enum Out {
    Ok,
    /// stage that refused the input
    Err(&'static str),
}

fn app(v: u64) -> AppVersion {
    AppVersion::from_u64(v).unwrap_or(AppVersion::latest())
}

/// Calls the real decoder on `input`.  Panics propagate (the caller wraps this in `guard`).
pub fn run(env: &Env, fx: &Fx, input: &[u8]) -> Out {
    match (fx.d, &fx.cx) {
        (D::ExtendedHeader, _) => {
            let h = match <ExtendedHeader as Protobuf<RawExtendedHeader>>::decode(input) {
                Ok(h) => h,
                Err(_) => return Out::Err("decode"),
            };
            // the same two steps as `decode_and_validate`, kept apart for the outcome class
            if h.validate().is_err() {
                return Out::Err("validate");
            }
            // what the syncer does next with a validated header received from a peer
            let _ = env.headers[0].verify(&h);
            let _ = env.headers[env.headers.len() - 1].verify(&h);
            let _ = ExtendedHeader::decode_and_validate(input);
            Out::Ok
        }
        (D::Sample, Cx::Sample { id, sq }) => {
            let s = match Sample::decode(*id, input) {
                Ok(s) => s,
                Err(_) => return Out::Err("decode"),
            };
            match s.verify(*id, &env.squares[*sq].dah) {
                Ok(()) => Out::Ok,
                Err(_) => Out::Err("verify"),
            }
        }
        (D::Row, Cx::Row { id, sq }) => {
            let r = match Row::decode(*id, input) {
                Ok(r) => r,
                Err(_) => return Out::Err("decode"),
            };
            match r.verify(*id, &env.squares[*sq].dah) {
                Ok(()) => Out::Ok,
                Err(_) => Out::Err("verify"),
            }
        }
        (D::RowNamespaceData, Cx::Rnd { id, sq }) => {
            let r = match RowNamespaceData::decode(*id, input) {
                Ok(r) => r,
                Err(_) => return Out::Err("decode"),
            };
            match r.verify(*id, &env.squares[*sq].dah) {
                Ok(()) => Out::Ok,
                Err(_) => Out::Err("verify"),
            }
        }
        (D::Befp, Cx::Befp { b }) => {
            let p = match <BadEncodingFraudProof as Protobuf<RawBefp>>::decode(input) {
                Ok(p) => p,
                Err(_) => return Out::Err("decode"),
            };
            match p.validate(&env.befp[*b].header) {
                Ok(()) => Out::Ok,
                Err(_) => Out::Err("validate"),
            }
        }
        (D::NmtProof, Cx::NmtProof { root, leaves, ns }) => {
            let p = match <NamespaceProof as Protobuf<RawProof>>::decode(input) {
                Ok(p) => p,
                Err(_) => return Out::Err("decode"),
            };
            let a = p.verify_range(root, leaves, **ns);
            let b = p.verify_complete_namespace(root, leaves, **ns);
            let _ = p.verify_complete_namespace(root, celestia_types::nmt::EMPTY_LEAVES, **ns);
            if a.is_ok() || b.is_ok() { Out::Ok } else { Out::Err("verify") }
        }
        (D::MerkleProof, Cx::Merkle { leaf, root }) => {
            let p = match <MerkleProof as Protobuf<RawMerkleProof>>::decode(input) {
                Ok(p) => p,
                Err(_) => return Out::Err("decode"),
            };
            match p.verify(leaf, *root) {
                Ok(()) => Out::Ok,
                Err(_) => Out::Err("verify"),
            }
        }
        (D::RowProof, Cx::Root { root }) => {
            let p = match <RowProof as Protobuf<RawRowProof>>::decode(input) {
                Ok(p) => p,
                Err(_) => return Out::Err("decode"),
            };
            match p.verify(Hash::Sha256(*root)) {
                Ok(()) => Out::Ok,
                Err(_) => Out::Err("verify"),
            }
        }
        (D::ShareProof, Cx::Root { root }) => {
            let p = match <ShareProof as Protobuf<RawShareProof>>::decode(input) {
                Ok(p) => p,
                Err(_) => return Out::Err("decode"),
            };
            match p.verify(Hash::Sha256(*root)) {
                Ok(()) => Out::Ok,
                Err(_) => Out::Err("verify"),
            }
        }
        (D::ShrexEds, Cx::Eds { height, sq, app: a }) => match sw::shrex_decode_eds(input, *height, &env.squares[*sq].dah, app(*a)) {
            Ok(_) => Out::Ok,
            Err(e) => Out::Err(codec_stage(&e)),
        },
        (D::ShrexSample, Cx::Sample { id, sq }) => match sw::shrex_decode_sample(input, id, &env.squares[*sq].dah, AppVersion::latest()) {
            Ok(_) => Out::Ok,
            Err(e) => Out::Err(codec_stage(&e)),
        },
        (D::ShrexRow, Cx::Row { id, sq }) => match sw::shrex_decode_row(input, id, &env.squares[*sq].dah, AppVersion::latest()) {
            Ok(_) => Out::Ok,
            Err(e) => Out::Err(codec_stage(&e)),
        },
        (D::ShrexNamespaceData, Cx::Nd { id, sq }) => match sw::shrex_decode_namespace_data(input, id, &env.squares[*sq].dah, AppVersion::latest()) {
            Ok(_) => Out::Ok,
            Err(e) => Out::Err(codec_stage(&e)),
        },
        (D::ShrexReqEds, _) => ok_or(sw::shrex_decode_eds_request(input).is_ok(), "decode"),
        (D::ShrexReqRow, _) => ok_or(sw::shrex_decode_row_request(input).is_ok(), "decode"),
        (D::ShrexReqSample, _) => ok_or(sw::shrex_decode_sample_request(input).is_ok(), "decode"),
        (D::ShrexReqNamespaceData, _) => ok_or(sw::shrex_decode_namespace_data_request(input).is_ok(), "decode"),
        (D::EdsNotification, _) => ok_or(sw::parse_eds_notification(input).is_ok(), "decode"),
        (D::BitswapSample | D::BitswapRow | D::BitswapRowNamespaceData, Cx::Block { code, .. }) => {
            match futures::executor::block_on(sw::shwap_multihash(env.store.clone(), *code, input)) {
                Ok(_) => Out::Ok,
                Err(_) => Out::Err("hash"),
            }
        }
        (D::BlockContainer, Cx::Block { expected_cid, .. }) => ok_or(sw::get_block_container(expected_cid, input).is_ok(), "decode"),
        (D::HexRequest, _) => {
            let mut io = futures::io::Cursor::new(input);
            ok_or(block_on(hx::codec_read_request(&mut io)).is_ok(), "decode")
        }
        (D::HexResponse, Cx::HexResp { req }) => {
            let mut io = futures::io::Cursor::new(input);
            let resps = match block_on(hx::codec_read_response(&mut io)) {
                Ok(r) => r,
                Err(_) => return Out::Err("framing"),
            };
            match block_on(hx::decode_and_verify_responses(req, &resps)) {
                Ok(_) => Out::Ok,
                Err(_) => Out::Err("headers"),
            }
        }
        (d, _) => panic!("C16 harness: decoder {} got a fixture context of another decoder", d.name()),
    }
}

fn ok_or(ok: bool, stage: &'static str) -> Out {
    if ok { Out::Ok } else { Out::Err(stage) }
}

fn codec_stage(e: &sw::VCodecError) -> &'static str {
    match e {
        sw::VCodecError::RequestDecode(_) => "request",
        sw::VCodecError::ResponseDecode(_) => "decode",
        sw::VCodecError::ResponseVerification(_) => "verify",
    }
}

// ------------------------------------------------------------------ framing of trees

/// Tree and field boundaries of an honest input; `None` for `Frame::Raw` (or an input that is
/// not well-formed protobuf, which is a fixture error the caller reports).
pub fn tree_of(frame: Frame, b: &[u8]) -> Option<(Vec<Field>, Vec<usize>)> {
    use crate::c16_wire as w;
    match frame {
        Frame::Raw => None,
        Frame::Plain => w::tree_of(b),
        Frame::Seq => {
            let mut out = vec![];
            let mut bd = vec![];
            let mut i = 0;
            while i < b.len() {
                bd.push(i);
                let (len, n) = w::read_varint(&b[i..])?;
                i += n;
                bd.push(i);
                let payload = b.get(i..i.checked_add(len as usize)?)?;
                let mut inner_b = vec![];
                match w::parse(payload, i, 1, &mut inner_b) {
                    Some(m) if w::encode(&m) == payload => {
                        bd.extend(inner_b);
                        out.push(Field { num: 1, val: w::Val::Msg(m) });
                    }
                    _ => out.push(Field { num: 1, val: w::Val::Bytes(payload.to_vec()) }),
                }
                i += len as usize;
            }
            bd.push(b.len());
            bd.sort();
            bd.dedup();
            Some((out, bd))
        }
    }
}

pub fn encode_tree(frame: Frame, tree: &[Field]) -> Vec<u8> {
    use crate::c16_wire as w;
    match frame {
        Frame::Raw => unreachable!(),
        Frame::Plain => w::encode(tree),
        Frame::Seq => {
            let mut out = vec![];
            for f in tree {
                match &f.val {
                    w::Val::Msg(m) => {
                        let inner = w::encode(m);
                        w::put_varint(inner.len() as u64, &mut out);
                        out.extend_from_slice(&inner);
                    }
                    w::Val::Bytes(b) => {
                        w::put_varint(b.len() as u64, &mut out);
                        out.extend_from_slice(b);
                    }
                    // a top-level item turned into a scalar: written as a bare varint
                    // (what a peer that sends a wrong delimiter would produce)
                    w::Val::Varint(v) => w::put_varint(*v, &mut out),
                    w::Val::F64(b) => out.extend_from_slice(b),
                    w::Val::F32(b) => out.extend_from_slice(b),
                }
            }
            out
        }
    }
}
