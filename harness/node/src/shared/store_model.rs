//! Shared explicit-state search for C19 / C20 / C21 (engine E2, `lv_core::bfs`).
//!
//! One breadth-first search over operation histories drives the two real header stores
//! in lock-step — `InMemoryStore` (snapshot: `async_clone`) and `RedbStore` over a
//! cloneable in-memory `redb::StorageBackend` (snapshot: the byte image between two
//! operations) — both through `EitherStore` so the forwarding layer is exercised too, and
//! compares every transition with a reference model written from the property
//! statements (`BTreeMap`/`BTreeSet`, adjacency known from the fixture).
//!
//! Three oracles are evaluated on every transition; the binary selects which one's
//! violations are reported:
//!   C19  result kind and total observation of both backends == model; sampled ⊆ stored,
//!        pruned ∩ stored = ∅.
//!   C20  a transition that fails (Err, or a panic) leaves the total observation of that
//!        backend unchanged, and the corrected batch is then accepted whenever the model
//!        accepts it.
//!   C21  in the reached state, for all stored h, h+1 the real `verify_adjacent` holds
//!        (and the fixture's parent relation), and every stored header is found by its
//!        hash as the same header, at its height.
#![allow(dead_code)]

use celestia_types::ExtendedHeader;
use celestia_types::hash::Hash;
use celestia_types::test_utils::ExtendedHeaderGenerator;
use cid::Cid;
use futures::FutureExt;
use lumina_node::store::{
    EitherStore, InMemoryStore, RedbStore, Store, StoreError, StoreInsertionError,
    VerifiedExtendedHeaders,
};
use lv_core::*;
use serde::{Deserialize, Serialize};
use serde_json::{Value, json};
use std::collections::{BTreeMap, BTreeSet, HashSet};
use std::fmt;
use std::future::Future;
use std::io;
use std::panic::AssertUnwindSafe;
use std::sync::atomic::{AtomicU64, Ordering};
use std::sync::{Arc, Mutex};
use std::time::Duration;

pub type Either = EitherStore<InMemoryStore, RedbStore>;

// ---------------------------------------------------------------------------------------
// header identities and the fixture

/// Identity of a fixture header: chain A (honest) or B (fork from height 3) and height.
#[derive(Clone, Copy, PartialEq, Eq, PartialOrd, Ord, Hash, Debug, Serialize, Deserialize)]
#[serde(into = "String", try_from = "String")]
pub struct Hid {
    pub fork: bool,
    pub h: u64,
}

impl fmt::Display for Hid {
    fn fmt(&self, f: &mut fmt::Formatter<'_>) -> fmt::Result {
        write!(f, "{}{}", if self.fork { 'B' } else { 'A' }, self.h)
    }
}
impl From<Hid> for String {
    fn from(h: Hid) -> String {
        h.to_string()
    }
}
impl TryFrom<String> for Hid {
    type Error = String;
    fn try_from(s: String) -> Result<Hid, String> {
        let fork = match s.as_bytes().first() {
            Some(b'A') => false,
            Some(b'B') => true,
            _ => return Err(format!("bad header id {s:?}")),
        };
        let h = s[1..].parse::<u64>().map_err(|e| format!("bad header id {s:?}: {e}"))?;
        Ok(Hid { fork, h })
    }
}

pub const FORK_AT: u64 = 3;

pub fn a(h: u64) -> Hid {
    Hid { fork: false, h }
}
pub fn b(h: u64) -> Hid {
    Hid { fork: true, h }
}

/// The parent relation of the fixture: A1 has none, A(h) -> A(h-1), B3 -> A2, B(h) -> B(h-1).
pub fn parent(x: Hid) -> Option<Hid> {
    if x.h <= 1 {
        None
    } else if x.fork && x.h == FORK_AT {
        Some(a(x.h - 1))
    } else {
        Some(Hid { fork: x.fork, h: x.h - 1 })
    }
}
/// `y` is the adjacent successor of `x`.
pub fn adjacent(x: Hid, y: Hid) -> bool {
    parent(y) == Some(x)
}

pub struct Fixture {
    pub n: u64,
    a: Vec<ExtendedHeader>,
    b: Vec<ExtendedHeader>,
    pub cids: Vec<Cid>,
    pub unknown_hash: Hash,
}

impl Fixture {
    /// Honest chain A1..An and fork B3..Bn (B3 is a child of A2).  Keys and hashes are
    /// random (the repo's generator); only identities matter to the oracles, and the
    /// structure is validated against the real `verify_adjacent` for every ordered pair.
    pub fn new(n: u64, seed: u64) -> Result<Fixture, String> {
        assert!(n >= FORK_AT + 1);
        let mut probe = ExtendedHeaderGenerator::new();
        let t0 = (probe.next().time() - Duration::from_secs(7200)).map_err(|e| e.to_string())?;
        let mut gen_a = ExtendedHeaderGenerator::new();
        gen_a.set_time(t0, Duration::from_secs(1));
        let mut av = gen_a.next_many(FORK_AT - 1);
        let mut gen_b = gen_a.fork();
        av.extend(gen_a.next_many(n - FORK_AT + 1));
        let bv = gen_b.next_many(n - FORK_AT + 1);
        let mut fill = Fill::new(seed, 0xC19);
        let cids = (0..2)
            .map(|_| {
                let digest: [u8; 32] = fill.array();
                let mh = cid::multihash::Multihash::<64>::wrap(0x12, &digest).map_err(|e| e.to_string())?;
                Ok(Cid::new_v1(0x55, mh))
            })
            .collect::<Result<Vec<_>, String>>()?;
        let fx = Fixture {
            n,
            a: av,
            b: bv,
            cids,
            unknown_hash: Hash::Sha256(fill.array()),
        };
        // validate the structure with the real verification
        let uni = fx.universe();
        let mut hashes = HashSet::new();
        for x in &uni {
            let hx = fx.get(*x);
            if hx.height() != x.h {
                return Err(format!("fixture: {x} has height {}", hx.height()));
            }
            hx.validate().map_err(|e| format!("fixture: {x} invalid: {e}"))?;
            if !hashes.insert(hx.hash()) {
                return Err(format!("fixture: duplicate hash at {x}"));
            }
            for y in &uni {
                let real = hx.verify_adjacent(fx.get(*y)).is_ok();
                if real != adjacent(*x, *y) {
                    return Err(format!(
                        "fixture: verify_adjacent({x},{y}) = {real}, parent relation says {}",
                        adjacent(*x, *y)
                    ));
                }
            }
        }
        Ok(fx)
    }

    pub fn exists(&self, x: Hid) -> bool {
        x.h >= 1 && x.h <= self.n && (!x.fork || x.h >= FORK_AT)
    }
    pub fn get(&self, x: Hid) -> &ExtendedHeader {
        if x.fork {
            &self.b[(x.h - FORK_AT) as usize]
        } else {
            &self.a[(x.h - 1) as usize]
        }
    }
    pub fn universe(&self) -> Vec<Hid> {
        let mut v: Vec<Hid> = (1..=self.n).map(a).collect();
        v.extend((FORK_AT..=self.n).map(b));
        v
    }
    /// Name of a returned header: the fixture identity if it is byte-for-byte that header.
    pub fn identify(&self, h: &ExtendedHeader) -> String {
        for x in self.universe() {
            let f = self.get(x);
            if f.hash() == h.hash() {
                return if f == h { x.to_string() } else { format!("corrupt:{x}") };
            }
        }
        format!("unknown:h{}", h.height())
    }
    pub fn headers(&self, batch: &[Hid]) -> Vec<ExtendedHeader> {
        batch.iter().map(|x| self.get(*x).clone()).collect()
    }
    /// All chains of fixture-adjacent headers of length 1..=max_len, shortest first.
    pub fn paths(&self, max_len: usize) -> Vec<Vec<Hid>> {
        let uni = self.universe();
        let mut out: Vec<Vec<Hid>> = vec![];
        let mut level: Vec<Vec<Hid>> = uni.iter().map(|x| vec![*x]).collect();
        for _ in 0..max_len {
            out.extend(level.iter().cloned());
            let mut next = vec![];
            for p in &level {
                for y in &uni {
                    if adjacent(*p.last().unwrap(), *y) {
                        let mut q = p.clone();
                        q.push(*y);
                        next.push(q);
                    }
                }
            }
            level = next;
        }
        out
    }
}

// ---------------------------------------------------------------------------------------
// operations

#[derive(Clone, Debug, Serialize, Deserialize, PartialEq, Eq, Hash)]
#[serde(tag = "op")]
pub enum Op {
    /// `checked`: through `Store::insert(Vec<ExtendedHeader>)`, i.e. the real
    /// `VerifiedExtendedHeaders::try_from`; otherwise through `unsafe new_unchecked`.
    Insert {
        batch: Vec<Hid>,
        checked: bool,
        /// shape of the batch ("chain", "gap", "reversed", "dup-element", "mixed", "empty",
        /// "dup-stored@p", "dup-inbatch@p")
        #[serde(default)]
        shape: String,
        /// the corrected batch (empty: none)
        #[serde(default)]
        corrected: Vec<Hid>,
    },
    Remove { h: u64 },
    Mark { h: u64 },
    Meta { h: u64, cids: Vec<u8> },
}

impl Op {
    pub fn name(&self) -> &'static str {
        match self {
            Op::Insert { .. } => "insert",
            Op::Remove { .. } => "remove_height",
            Op::Mark { .. } => "mark_as_sampled",
            Op::Meta { .. } => "update_sampling_metadata",
        }
    }
}

pub struct Bounds {
    pub n: u64,
    /// longest valid batch
    pub max_len: usize,
    /// longest chain the unverified duplicate-hash batches are derived from
    pub max_dup_len: usize,
    /// longest chain the batches refused by try_from are derived from (reversed / doubled
    /// element / mixed: this length; gap: this length + 1, so that one element can go)
    pub max_inv_len: usize,
    /// false: only the operations that can succeed (valid chains, remove, mark, metadata)
    pub invalid_batches: bool,
    pub depth: usize,
    pub max_states: usize,
    pub wall_cap: Duration,
}

/// State-independent part of the alphabet, simplest first.
pub fn static_ops(fx: &Fixture, bd: &Bounds) -> Vec<Op> {
    let mut ops: Vec<Op> = vec![];
    let mut seen: HashSet<(Vec<Hid>, bool)> = HashSet::new();
    let mut push = |ops: &mut Vec<Op>, batch: Vec<Hid>, shape: &str, corrected: Vec<Hid>| {
        if seen.insert((batch.clone(), true)) {
            ops.push(Op::Insert { batch, checked: true, shape: shape.into(), corrected });
        }
    };
    let paths = fx.paths(bd.max_len + 1);
    let uni = fx.universe();
    // valid chains
    for p in paths.iter().filter(|p| p.len() <= bd.max_len) {
        push(&mut ops, p.clone(), "chain", vec![]);
    }
    for h in 0..=fx.n + 1 {
        ops.push(Op::Remove { h });
    }
    for h in 0..=fx.n + 1 {
        ops.push(Op::Mark { h });
    }
    for h in 0..=fx.n + 1 {
        for cids in [vec![0u8], vec![1], vec![0, 1]] {
            // the narrow search adds {c0,c1} as {c0} then {c1}
            if bd.invalid_batches || cids.len() == 1 {
                ops.push(Op::Meta { h, cids });
            }
        }
    }
    if !bd.invalid_batches {
        return ops;
    }
    // invalid batches that the real try_from must refuse
    push(&mut ops, vec![], "empty", vec![]);
    for p in paths.iter().filter(|p| p.len() >= 2 && p.len() <= bd.max_inv_len) {
        let mut r = p.clone();
        r.reverse();
        push(&mut ops, r, "reversed", p.clone());
    }
    for p in paths.iter().filter(|p| p.len() < bd.max_inv_len) {
        for i in 0..p.len() {
            let mut d = p.clone();
            d.insert(i, p[i]);
            push(&mut ops, d, "dup-element", p.clone());
        }
    }
    for p in paths.iter().filter(|p| p.len() >= 3 && p.len() <= bd.max_inv_len + 1) {
        for i in 1..p.len() - 1 {
            let mut g = p.clone();
            g.remove(i);
            push(&mut ops, g, "gap", p.clone());
        }
    }
    for p in paths.iter().filter(|p| p.len() < bd.max_inv_len) {
        let last = *p.last().unwrap();
        for y in uni.iter().filter(|y| y.h == last.h + 1 && !adjacent(last, **y)) {
            let mut m = p.clone();
            m.push(*y);
            let mut c = p.clone();
            if let Some(good) = uni.iter().find(|g| adjacent(last, **g) && g.fork == last.fork) {
                c.push(*good);
            }
            push(&mut ops, m, "mixed", c);
        }
    }
    ops
}

/// State-dependent part: batches that reach the store unverified (`new_unchecked`) and
/// whose *only* defect is a duplicated hash — a chain P that the model would accept in
/// this state, with (a) a stored header or (b) an element of P itself inserted at a
/// position that keeps P's first and last element (so the batch covers P's range).
pub fn dup_hash_ops(fx: &Fixture, bd: &Bounds, model: &Model, paths: &[Vec<Hid>]) -> Vec<Op> {
    let mut ops = vec![];
    if !bd.invalid_batches {
        return ops;
    }
    for p in paths.iter().filter(|p| p.len() >= 2 && p.len() <= bd.max_dup_len) {
        let mut m = model.clone();
        if m.insert(fx, p, true) != Kind::Ok {
            continue;
        }
        for x in model.stored.values() {
            for pos in 1..p.len() {
                let mut d = p.clone();
                d.insert(pos, *x);
                ops.push(Op::Insert {
                    batch: d,
                    checked: false,
                    shape: format!("dup-stored@{pos}"),
                    corrected: p.clone(),
                });
            }
        }
        for i in 0..p.len() {
            for pos in i + 1..=p.len() {
                if pos == p.len() && i != p.len() - 1 {
                    continue; // would change the last element, hence the claimed range
                }
                let mut d = p.clone();
                d.insert(pos, p[i]);
                ops.push(Op::Insert {
                    batch: d,
                    checked: false,
                    shape: format!("dup-inbatch@{pos}"),
                    corrected: p.clone(),
                });
            }
        }
    }
    ops
}

// ---------------------------------------------------------------------------------------
// reference model

#[derive(Clone, Copy, PartialEq, Eq, Debug)]
pub enum Kind {
    Ok,
    NotFound,
    ConstraintsNotMet,
    NeighborsVerificationFailed,
    HeadersVerificationFailed,
    HashExists,
    /// the batch is outside what the model defines (alphabet bug: machinery error)
    Undefined,
}

impl Kind {
    pub fn as_str(self) -> &'static str {
        match self {
            Kind::Ok => "ok",
            Kind::NotFound => "NotFound",
            Kind::ConstraintsNotMet => "ConstraintsNotMet",
            Kind::NeighborsVerificationFailed => "NeighborsVerificationFailed",
            Kind::HeadersVerificationFailed => "HeadersVerificationFailed",
            Kind::HashExists => "HashExists",
            Kind::Undefined => "MODEL-UNDEFINED",
        }
    }
}

#[derive(Clone, PartialEq, Eq, Debug, Default)]
pub struct Model {
    pub stored: BTreeMap<u64, Hid>,
    pub sampled: BTreeSet<u64>,
    pub pruned: BTreeSet<u64>,
    pub meta: BTreeMap<u64, BTreeSet<u8>>,
}

fn runs(set: impl IntoIterator<Item = u64>) -> String {
    let mut out: Vec<(u64, u64)> = vec![];
    for h in set {
        match out.last_mut() {
            Some((_, e)) if *e + 1 == h => *e = h,
            _ => out.push((h, h)),
        }
    }
    out.iter().map(|(s, e)| format!("{s}-{e}")).collect::<Vec<_>>().join(",")
}

impl Model {
    /// Insertion constraints from the statement of the store contract: a valid range, no
    /// overlap, and either the store is empty, or the range is above everything stored, or
    /// it touches a stored neighbour.  Returns (height below stored, height above stored).
    fn constraints(&self, lo: u64, hi: u64) -> Option<(bool, bool)> {
        if lo == 0 || lo > hi {
            return None;
        }
        if (lo..=hi).any(|h| self.stored.contains_key(&h)) {
            return None;
        }
        let below = self.stored.contains_key(&(lo - 1));
        let above = self.stored.contains_key(&(hi + 1));
        let above_all = self.stored.keys().next_back().is_none_or(|m| lo > *m);
        (above_all || below || above).then_some((below, above))
    }

    pub fn insert(&mut self, _fx: &Fixture, batch: &[Hid], checked: bool) -> Kind {
        if checked && batch.windows(2).any(|w| !adjacent(w[0], w[1])) {
            return Kind::HeadersVerificationFailed;
        }
        let (Some(first), Some(last)) = (batch.first(), batch.last()) else {
            return Kind::Ok;
        };
        let Some((below, above)) = self.constraints(first.h, last.h) else {
            return Kind::ConstraintsNotMet;
        };
        if below && !adjacent(self.stored[&(first.h - 1)], *first) {
            return Kind::NeighborsVerificationFailed;
        }
        if above && !adjacent(*last, self.stored[&(last.h + 1)]) {
            return Kind::NeighborsVerificationFailed;
        }
        let mut seen = BTreeSet::new();
        for x in batch {
            if self.stored.values().any(|s| s == x) || !seen.insert(*x) {
                return Kind::HashExists;
            }
        }
        if batch.windows(2).any(|w| w[0].h + 1 != w[1].h) {
            return Kind::Undefined;
        }
        for x in batch {
            self.stored.insert(x.h, *x);
            self.sampled.remove(&x.h);
            self.pruned.remove(&x.h);
        }
        Kind::Ok
    }

    pub fn apply(&mut self, fx: &Fixture, op: &Op) -> Kind {
        match op {
            Op::Insert { batch, checked, .. } => self.insert(fx, batch, *checked),
            Op::Remove { h } => {
                if self.stored.remove(h).is_none() {
                    return Kind::NotFound;
                }
                self.sampled.remove(h);
                self.meta.remove(h);
                self.pruned.insert(*h);
                Kind::Ok
            }
            Op::Mark { h } => {
                if !self.stored.contains_key(h) {
                    return Kind::NotFound;
                }
                self.sampled.insert(*h);
                Kind::Ok
            }
            Op::Meta { h, cids } => {
                if !self.stored.contains_key(h) {
                    return Kind::NotFound;
                }
                self.meta.entry(*h).or_default().extend(cids.iter().copied());
                Kind::Ok
            }
        }
    }

    fn by_height(&self, h: u64) -> String {
        match self.stored.get(&h) {
            Some(x) => x.to_string(),
            None => "err:NotFound".into(),
        }
    }

    /// `get_range` per its documentation: unbounded start = 1, unbounded end = head; an
    /// error if the store is empty, a bound is outside 1..=head or a height is missing.
    fn range(&self, lo: Option<u64>, hi: Option<u64>) -> String {
        let Some(head) = self.stored.keys().next_back().copied() else {
            return "err:NotFound".into();
        };
        let lo = lo.unwrap_or(1);
        let hi = hi.unwrap_or(head);
        if lo == 0 || lo > head || hi > head {
            return "err:NotFound".into();
        }
        let mut names = vec![];
        for h in lo..=hi {
            match self.stored.get(&h) {
                Some(x) => names.push(x.to_string()),
                None => return "err:NotFound".into(),
            }
        }
        format!("[{}]", names.join(","))
    }

    /// `ranges = false`: the per-transition observation; `true`: the `get_range` answers
    /// (checked once per distinct state).
    pub fn observe(&self, fx: &Fixture, ranges: bool) -> Obs {
        let mut o: Obs = vec![];
        if ranges {
            o.push(("get_range(..)".into(), self.range(None, None)));
            for lo in 1..=fx.n + 1 {
                o.push((format!("get_range({lo}..)"), self.range(Some(lo), None)));
                o.push((format!("get_range(..={lo})"), self.range(None, Some(lo))));
                for hi in lo..=fx.n + 1 {
                    o.push((format!("get_range({lo}..={hi})"), self.range(Some(lo), Some(hi))));
                }
            }
            return o;
        }
        o.push(("stored_ranges".into(), runs(self.stored.keys().copied())));
        o.push(("sampled_ranges".into(), runs(self.sampled.iter().copied())));
        o.push(("pruned_ranges".into(), runs(self.pruned.iter().copied())));
        let head = self.stored.keys().next_back().copied();
        o.push(("head_height".into(), head.map(|h| h.to_string()).unwrap_or("err:NotFound".into())));
        o.push(("get_head".into(), head.map(|h| self.by_height(h)).unwrap_or("err:NotFound".into())));
        for h in 0..=fx.n + 1 {
            o.push((format!("get_by_height({h})"), self.by_height(h)));
            o.push((format!("has_at({h})"), self.stored.contains_key(&h).to_string()));
            let m = if !self.stored.contains_key(&h) {
                "err:NotFound".to_string()
            } else {
                match self.meta.get(&h) {
                    None => "none".into(),
                    Some(s) => fmt_cids(s.iter().map(|c| format!("c{c}"))),
                }
            };
            o.push((format!("get_sampling_metadata({h})"), m));
        }
        for x in fx.universe() {
            let stored = self.stored.get(&x.h) == Some(&x);
            o.push((format!("get_by_hash({x})"), if stored { x.to_string() } else { "err:NotFound".into() }));
            o.push((format!("has({x})"), stored.to_string()));
        }
        o.push(("get_by_hash(unknown)".into(), "err:NotFound".into()));
        o.push(("has(unknown)".into(), "false".into()));
        o
    }
}

fn fmt_cids(names: impl Iterator<Item = String>) -> String {
    let set: BTreeSet<String> = names.collect();
    format!("{{{}}}", set.into_iter().collect::<Vec<_>>().join(","))
}

// ---------------------------------------------------------------------------------------
// driving the real stores

/// query -> canonical answer, in a fixed query order
pub type Obs = Vec<(String, String)>;

pub fn obs_key(o: &Obs) -> u64 {
    let mut s = String::new();
    for (q, a) in o {
        s.push_str(q);
        s.push('=');
        s.push_str(a);
        s.push(';');
    }
    fnv64(s.as_bytes())
}

pub fn obs_diff(want: &Obs, got: &Obs) -> Option<String> {
    if want.len() != got.len() {
        return Some(format!("{} answers expected, {} observed", want.len(), got.len()));
    }
    let d: Vec<String> = want
        .iter()
        .zip(got)
        .filter(|(w, g)| w != g)
        .take(4)
        .map(|(w, g)| format!("{}: expected {} got {}", w.0, w.1, g.1))
        .collect();
    if d.is_empty() { None } else { Some(d.join("; ")) }
}

thread_local! {
    static RT: tokio::runtime::Runtime = {
        quiet_panics_on_this_thread();
        tokio::runtime::Builder::new_current_thread().enable_all().build().expect("runtime")
    };
}

pub fn block<F: Future>(f: F) -> F::Output {
    RT.with(|rt| rt.block_on(f))
}

/// Awaits a call into the code under test; a panic becomes `Err(message)`.
async fn call<T>(f: impl Future<Output = T>) -> Result<T, String> {
    AssertUnwindSafe(f)
        .catch_unwind()
        .await
        .map_err(|_| take_last_panic().unwrap_or_else(|| "<panic>".into()))
}

fn err_kind(e: &StoreError) -> &'static str {
    match e {
        StoreError::NotFound => "NotFound",
        StoreError::InsertionFailed(StoreInsertionError::HeadersVerificationFailed(_)) => "HeadersVerificationFailed",
        StoreError::InsertionFailed(StoreInsertionError::NeighborsVerificationFailed(_)) => "NeighborsVerificationFailed",
        StoreError::InsertionFailed(StoreInsertionError::ConstraintsNotMet(_)) => "ConstraintsNotMet",
        StoreError::InsertionFailed(StoreInsertionError::HashExists(_)) => "HashExists",
        StoreError::StoredDataError(_) => "StoredDataError",
        StoreError::FatalDatabaseError(_) => "FatalDatabaseError",
        StoreError::ExecutorError(_) => "ExecutorError",
        StoreError::OpenFailed(_) => "OpenFailed",
        StoreError::NamedLock(_) => "NamedLock",
    }
}

/// Outcome of a mutating operation on a real store.
#[derive(Clone, Debug, PartialEq)]
pub struct Got {
    /// "ok" | error kind | "panic"
    pub kind: String,
    pub detail: String,
}

impl Got {
    pub fn failed(&self) -> bool {
        self.kind != "ok"
    }
}

fn got_of(r: Result<Result<(), StoreError>, String>) -> Got {
    match r {
        Ok(Ok(())) => Got { kind: "ok".into(), detail: String::new() },
        Ok(Err(e)) => Got { kind: err_kind(&e).into(), detail: e.to_string() },
        Err(p) => Got { kind: "panic".into(), detail: p },
    }
}

pub async fn apply_real<S: Store>(s: &S, fx: &Fixture, op: &Op) -> Got {
    match op {
        Op::Insert { batch, checked, .. } => {
            let headers = fx.headers(batch);
            if *checked {
                got_of(call(s.insert(headers)).await)
            } else {
                // SAFETY (of the harness): this is deliberately a batch the caller did not
                // verify; the store's documented answer to a duplicated hash is HashExists.
                let v = unsafe { VerifiedExtendedHeaders::new_unchecked(headers) };
                got_of(call(s.insert(v)).await)
            }
        }
        Op::Remove { h } => got_of(call(s.remove_height(*h)).await),
        Op::Mark { h } => got_of(call(s.mark_as_sampled(*h)).await),
        Op::Meta { h, cids } => {
            let c: Vec<Cid> = cids.iter().map(|i| fx.cids[*i as usize]).collect();
            got_of(call(s.update_sampling_metadata(*h, c)).await)
        }
    }
}

fn ans<T>(r: Result<Result<T, StoreError>, String>, f: impl FnOnce(T) -> String) -> String {
    match r {
        Ok(Ok(v)) => f(v),
        Ok(Err(e)) => format!("err:{}", err_kind(&e)),
        Err(p) => format!("panic:{p}"),
    }
}
fn ans_bool(r: Result<bool, String>) -> String {
    match r {
        Ok(v) => v.to_string(),
        Err(p) => format!("panic:{p}"),
    }
}

fn heights_of(r: &lumina_node::store::BlockRanges) -> Result<BTreeSet<u64>, String> {
    let raw: &[std::ops::RangeInclusive<u64>] = r.as_ref();
    let mut set = BTreeSet::new();
    for x in raw {
        if x.end().saturating_sub(*x.start()) > 10_000 {
            return Err(format!("{raw:?}"));
        }
        set.extend(x.clone());
    }
    Ok(set)
}

fn fmt_ranges(r: lumina_node::store::BlockRanges) -> String {
    match heights_of(&r) {
        Ok(set) => runs(set),
        Err(raw) => format!("raw:{raw}"),
    }
}

fn fmt_headers(fx: &Fixture, v: Vec<ExtendedHeader>) -> String {
    format!("[{}]", v.iter().map(|h| fx.identify(h)).collect::<Vec<_>>().join(","))
}

/// The values behind an observation that the C21 invariant needs (the headers actually
/// returned), recorded while observing so that the invariant costs no second round of queries.
#[derive(Default)]
pub struct Seen {
    stored: Option<BTreeSet<u64>>,
    by_height: BTreeMap<u64, ExtendedHeader>,
    by_hash: BTreeMap<Hid, Option<ExtendedHeader>>,
    has: BTreeMap<Hid, bool>,
}

pub async fn observe<S: Store>(s: &S, fx: &Fixture, ranges: bool) -> Obs {
    observe_seen(s, fx, ranges, &mut Seen::default()).await
}

/// The total observation: the answer of every query over the whole height / hash universe.
pub async fn observe_seen<S: Store>(s: &S, fx: &Fixture, ranges: bool, seen: &mut Seen) -> Obs {
    let mut o: Obs = vec![];
    if ranges {
        // get_range is a provided method over head_height + get_by_height: its answers are
        // checked once per distinct state, not on every transition
        o.push(("get_range(..)".into(), ans(call(s.get_range(..)).await, |v| fmt_headers(fx, v))));
        for lo in 1..=fx.n + 1 {
            o.push((format!("get_range({lo}..)"), ans(call(s.get_range(lo..)).await, |v| fmt_headers(fx, v))));
            o.push((format!("get_range(..={lo})"), ans(call(s.get_range(..=lo)).await, |v| fmt_headers(fx, v))));
            for hi in lo..=fx.n + 1 {
                o.push((format!("get_range({lo}..={hi})"), ans(call(s.get_range(lo..=hi)).await, |v| fmt_headers(fx, v))));
            }
        }
        return o;
    }
    let stored = call(s.get_stored_header_ranges()).await;
    if let Ok(Ok(r)) = &stored {
        seen.stored = heights_of(r).ok();
    }
    o.push(("stored_ranges".into(), ans(stored, fmt_ranges)));
    o.push(("sampled_ranges".into(), ans(call(s.get_sampled_ranges()).await, fmt_ranges)));
    o.push(("pruned_ranges".into(), ans(call(s.get_pruned_ranges()).await, fmt_ranges)));
    o.push(("head_height".into(), ans(call(s.head_height()).await, |h| h.to_string())));
    o.push(("get_head".into(), ans(call(s.get_head()).await, |h| fx.identify(&h))));
    for h in 0..=fx.n + 1 {
        let r = call(s.get_by_height(h)).await;
        if let Ok(Ok(x)) = &r {
            seen.by_height.insert(h, x.clone());
        }
        o.push((format!("get_by_height({h})"), ans(r, |x| fx.identify(&x))));
        o.push((format!("has_at({h})"), ans_bool(call(s.has_at(h)).await)));
        o.push((
            format!("get_sampling_metadata({h})"),
            ans(call(s.get_sampling_metadata(h)).await, |m| match m {
                None => "none".into(),
                Some(m) => fmt_cids(m.cids.iter().map(|c| match fx.cids.iter().position(|k| k == c) {
                    Some(i) => format!("c{i}"),
                    None => format!("?{c}"),
                })),
            }),
        ));
    }
    for x in fx.universe() {
        let hash = fx.get(x).hash();
        let r = call(s.get_by_hash(&hash)).await;
        seen.by_hash.insert(x, r.as_ref().ok().and_then(|r| r.as_ref().ok()).cloned());
        o.push((format!("get_by_hash({x})"), ans(r, |h| fx.identify(&h))));
        let r = call(s.has(&hash)).await;
        seen.has.insert(x, matches!(r, Ok(true)));
        o.push((format!("has({x})"), ans_bool(r)));
    }
    o.push(("get_by_hash(unknown)".into(), ans(call(s.get_by_hash(&fx.unknown_hash)).await, |h| fx.identify(&h))));
    o.push(("has(unknown)".into(), ans_bool(call(s.has(&fx.unknown_hash)).await)));
    o
}

/// C21 state invariant on the headers the store actually returned (recorded in `seen`
/// while observing; a stored header that is not a fixture header is looked up by its hash
/// with an extra query), with the real `verify_adjacent`.
pub async fn fork_free<S: Store>(s: &S, fx: &Fixture, backend: &str, seen: &Seen) -> Vec<(String, String)> {
    let mut v = vec![];
    let Some(stored) = &seen.stored else {
        v.push((format!("{backend}-stored-ranges-unreadable"), "get_stored_header_ranges failed".into()));
        return v;
    };
    let uni = fx.universe();
    let mut prev: Option<&ExtendedHeader> = None;
    for &h in stored {
        let Some(cur) = seen.by_height.get(&h) else {
            v.push((
                format!("{backend}-stored-height-not-readable"),
                format!("height {h} is in the stored ranges but get_by_height({h}) returned no header"),
            ));
            prev = None;
            continue;
        };
        if cur.height() != h {
            v.push((format!("{backend}-header-at-wrong-height"), format!("get_by_height({h}) returned {} of height {}", fx.identify(cur), cur.height())));
        }
        match uni.iter().find(|x| fx.get(**x).hash() == cur.hash()) {
            Some(x) => {
                let found = seen.by_hash.get(x).cloned().flatten();
                if found.as_ref() != Some(cur) {
                    v.push((
                        format!("{backend}-hash-lookup-differs"),
                        format!("height {h} holds {} but get_by_hash of its hash = {:?}", fx.identify(cur), found.map(|f| fx.identify(&f))),
                    ));
                }
                if seen.has.get(x) != Some(&true) {
                    v.push((format!("{backend}-hash-lookup-differs"), format!("height {h} holds {} but has(hash) is not true", fx.identify(cur))));
                }
            }
            None => match call(s.get_by_hash(&cur.hash())).await {
                Ok(Ok(x)) if &x == cur => {}
                other => v.push((
                    format!("{backend}-hash-lookup-differs"),
                    format!("height {h} holds {} but get_by_hash of its hash = {:?}", fx.identify(cur), other.map(|r| r.map(|x| fx.identify(&x)))),
                )),
            },
        }
        if let Some(p) = prev {
            if p.height() + 1 == h {
                if let Err(e) = p.verify_adjacent(cur) {
                    v.push((
                        format!("{backend}-consecutive-stored-headers-not-linked"),
                        format!("heights {} and {h} hold {} and {}: verify_adjacent: {e}", h - 1, fx.identify(p), fx.identify(cur)),
                    ));
                }
            }
        }
        prev = Some(cur);
    }
    v
}

// ---------------------------------------------------------------------------------------
// cloneable redb backend and snapshots

const PAGE: usize = 4096;
type Page = Arc<[u8; PAGE]>;

/// The byte image as copy-on-write 4 KiB pages (`None` = all zero): a snapshot is a clone
/// of the page table.
#[derive(Clone, Debug, Default)]
pub struct Pages {
    len: u64,
    pages: Vec<Option<Page>>,
}

impl Pages {
    pub fn bytes(&self) -> usize {
        self.pages.iter().flatten().count() * PAGE
    }
}

/// `redb::StorageBackend` over [`Pages`]; the harness keeps a handle to take snapshots.
#[derive(Clone, Debug, Default)]
pub struct ImageBackend(Arc<Mutex<Pages>>);

fn oob() -> io::Error {
    io::Error::new(io::ErrorKind::InvalidInput, "access beyond the end of the image")
}

impl redb::StorageBackend for ImageBackend {
    fn len(&self) -> Result<u64, io::Error> {
        Ok(self.0.lock().unwrap().len)
    }
    fn read(&self, offset: u64, len: usize) -> Result<Vec<u8>, io::Error> {
        let g = self.0.lock().unwrap();
        let end = offset.checked_add(len as u64).filter(|e| *e <= g.len).ok_or_else(oob)?;
        let mut out = vec![0u8; len];
        let mut pos = offset;
        while pos < end {
            let (pi, po) = ((pos / PAGE as u64) as usize, (pos % PAGE as u64) as usize);
            let n = (PAGE - po).min((end - pos) as usize);
            if let Some(p) = &g.pages[pi] {
                let o = (pos - offset) as usize;
                out[o..o + n].copy_from_slice(&p[po..po + n]);
            }
            pos += n as u64;
        }
        Ok(out)
    }
    fn set_len(&self, len: u64) -> Result<(), io::Error> {
        let mut g = self.0.lock().unwrap();
        let n = usize::try_from(len.div_ceil(PAGE as u64)).map_err(|_| oob())?;
        g.pages.resize(n, None);
        // bytes beyond the new end inside the last page must read as zero after a later growth
        if len % PAGE as u64 != 0 {
            if let Some(Some(p)) = g.pages.last_mut() {
                Arc::make_mut(p)[(len % PAGE as u64) as usize..].fill(0);
            }
        }
        g.len = len;
        Ok(())
    }
    fn sync_data(&self, _eventual: bool) -> Result<(), io::Error> {
        Ok(())
    }
    fn write(&self, offset: u64, data: &[u8]) -> Result<(), io::Error> {
        let mut g = self.0.lock().unwrap();
        let end = offset.checked_add(data.len() as u64).filter(|e| *e <= g.len).ok_or_else(oob)?;
        let mut pos = offset;
        while pos < end {
            let (pi, po) = ((pos / PAGE as u64) as usize, (pos % PAGE as u64) as usize);
            let n = (PAGE - po).min((end - pos) as usize);
            let o = (pos - offset) as usize;
            let page = g.pages[pi].get_or_insert_with(|| Arc::new([0u8; PAGE]));
            Arc::make_mut(page)[po..po + n].copy_from_slice(&data[o..o + n]);
            pos += n as u64;
        }
        Ok(())
    }
}

/// Drops a value while the thread is unwinding.  `redb::Database::drop` serialises its
/// whole allocator state into a system table (about 1 MB of writes and a file growth; it
/// was 75 % of the cost of a transition) unless `thread::panicking()`; the snapshot has
/// been taken before and nothing reads the image afterwards, so that work is skipped.
fn drop_during_unwind<T>(v: T) {
    let _ = std::panic::catch_unwind(AssertUnwindSafe(move || {
        let _v = v;
        std::panic::resume_unwind(Box::new(()));
    }));
}

/// A live pair of stores positioned at one state of the search, with what is needed to
/// put them back to that state after an operation changed them: the in-memory store is
/// re-cloned from the state's snapshot, the redb database is rolled back to an ephemeral
/// redb savepoint taken right after opening (a reopen costs ~15 ms of redb allocator
/// bookkeeping, a rollback well under one).
pub struct Live {
    pub mem: Either,
    pub redb: Either,
    backend: ImageBackend,
    db: Arc<redb::Database>,
    savepoint: redb::Savepoint,
    /// operations applied since the restore from the snapshot (for diagnostics)
    since: Vec<Op>,
    restore_verified: bool,
}

pub static OPEN_NS: [AtomicU64; 3] = [AtomicU64::new(0), AtomicU64::new(0), AtomicU64::new(0)];

impl Live {
    async fn open(mem: InMemoryStore, image: Pages) -> Result<Live, String> {
        let t0 = std::time::Instant::now();
        let backend = ImageBackend(Arc::new(Mutex::new(image)));
        let db = redb::Database::builder()
            .create_with_backend(backend.clone())
            .map_err(|e| format!("redb open: {e}"))?;
        let db = Arc::new(db);
        let t1 = std::time::Instant::now();
        let store = RedbStore::new(db.clone()).await.map_err(|e| format!("RedbStore::new: {e}"))?;
        let tx = db.begin_write().map_err(|e| format!("savepoint: {e}"))?;
        let savepoint = tx.ephemeral_savepoint().map_err(|e| format!("savepoint: {e}"))?;
        tx.abort().map_err(|e| format!("savepoint: {e}"))?;
        OPEN_NS[0].fetch_add((t1 - t0).as_nanos() as u64, Ordering::Relaxed);
        OPEN_NS[1].fetch_add(t1.elapsed().as_nanos() as u64, Ordering::Relaxed);
        OPEN_NS[2].fetch_add(1, Ordering::Relaxed);
        Ok(Live {
            mem: EitherStore::Left(mem),
            redb: EitherStore::Right(store),
            backend,
            db,
            savepoint,
            since: vec![],
            restore_verified: false,
        })
    }

    pub async fn fresh() -> Result<Live, String> {
        Live::open(InMemoryStore::new(), Pages::default()).await
    }

    /// Snapshot of the current contents: the in-memory store is cloned, the redb image is
    /// copied (all operations have been awaited, so no transaction is open: the image is
    /// what a process kill between two operations leaves; redb repairs it on open).
    async fn snapshot(&self) -> (Arc<Either>, Arc<Pages>) {
        let mem = self.mem.left().expect("left").async_clone().await;
        let img = self.backend.0.lock().unwrap().clone();
        (Arc::new(EitherStore::Left(mem)), Arc::new(img))
    }

    /// Rolls the redb database back to the state it was opened at.
    fn rollback(&mut self) -> Result<(), String> {
        let mut tx = self.db.begin_write().map_err(|e| format!("rollback: {e}"))?;
        tx.restore_savepoint(&self.savepoint).map_err(|e| format!("rollback: {e}"))?;
        tx.commit().map_err(|e| format!("rollback: {e}"))?;
        Ok(())
    }

    pub async fn discard(self) {
        drop_during_unwind(self);
    }
}

// ---------------------------------------------------------------------------------------
// the search

#[derive(Clone, Copy, PartialEq, Eq, Debug)]
pub enum Which {
    C19,
    C20,
    C21,
}

/// A state of the search: snapshots of both stores, the model, cached observations.
pub struct St {
    /// unique id of this snapshot (key of the per-thread cache of live objects)
    sid: u64,
    depth: usize,
    mem: Arc<Either>,
    redb: Arc<Pages>,
    pub model: Model,
    obs_mem: Arc<Obs>,
    obs_redb: Arc<Obs>,
}

pub struct Env {
    pub fx: Fixture,
    pub bd: Bounds,
    pub which: Which,
    pub statics: Vec<Op>,
    pub paths: Vec<Vec<Hid>>,
    seen_ext: Mutex<HashSet<u64>>,
    pub corrections: AtomicU64,
    pub corrections_accepted: AtomicU64,
    pub extended_checked: AtomicU64,
    pub image_bytes_max: AtomicU64,
    pub machinery: Mutex<Option<String>>,
    pub replaying: bool,
    pub deadline: std::time::Instant,
    pub skipped: AtomicU64,
    pub nontrivial: AtomicU64,
    pub probes: AtomicU64,
    next_sid: AtomicU64,
    pub thaws: AtomicU64,
    pub reused: AtomicU64,
    pub reruns: AtomicU64,
    pub rollbacks: AtomicU64,
    /// cumulative nanoseconds: thaw, apply, observe, extended, c21, correction, freeze
    pub prof: [AtomicU64; 7],
}

impl Env {
    pub fn new(fx: Fixture, bd: Bounds, which: Which) -> Env {
        let statics = static_ops(&fx, &bd);
        let paths = fx.paths(bd.max_dup_len);
        Env {
            fx,
            bd,
            which,
            statics,
            paths,
            seen_ext: Mutex::new(HashSet::new()),
            corrections: AtomicU64::new(0),
            corrections_accepted: AtomicU64::new(0),
            extended_checked: AtomicU64::new(0),
            image_bytes_max: AtomicU64::new(0),
            machinery: Mutex::new(None),
            replaying: false,
            deadline: std::time::Instant::now() + Duration::from_secs(86_400),
            skipped: AtomicU64::new(0),
            nontrivial: AtomicU64::new(0),
            probes: AtomicU64::new(0),
            next_sid: AtomicU64::new(1),
            thaws: AtomicU64::new(0),
            reused: AtomicU64::new(0),
            reruns: AtomicU64::new(0),
            rollbacks: AtomicU64::new(0),
            prof: Default::default(),
        }
    }

    fn lap(&self, i: usize, t: &mut std::time::Instant) {
        let now = std::time::Instant::now();
        self.prof[i].fetch_add((now - *t).as_nanos() as u64, Ordering::Relaxed);
        *t = now;
    }

    fn machinery(&self, msg: String) {
        let mut g = self.machinery.lock().unwrap();
        if g.is_none() {
            *g = Some(msg);
        }
    }

    pub fn ops(&self, st: &St) -> Vec<Op> {
        let mut v = self.statics.clone();
        v.extend(dup_hash_ops(&self.fx, &self.bd, &st.model, &self.paths));
        v
    }

    async fn thaw(&self, st: &St) -> Result<Live, String> {
        self.thaws.fetch_add(1, Ordering::Relaxed);
        let mem = st.mem.left().expect("left").async_clone().await;
        Live::open(mem, (*st.redb).clone()).await
    }

    pub fn init(&self) -> (St, u64) {
        let r: Result<(St, u64), String> = block(async {
            let live = Live::fresh().await?;
            let obs_mem = observe(&live.mem, &self.fx, false).await;
            let obs_redb = observe(&live.redb, &self.fx, false).await;
            let key = state_key(&obs_mem, &obs_redb);
            let (mem, redb) = live.snapshot().await;
            live.discard().await;
            Ok((St { sid: 0, depth: 0, mem, redb, model: Model::default(), obs_mem: Arc::new(obs_mem), obs_redb: Arc::new(obs_redb) }, key))
        });
        match r {
            Ok(x) => x,
            Err(e) => machinery_error("C19-C21", &format!("cannot create the initial stores: {e}")),
        }
    }

    /// One transition on the real stores, with all three oracles.
    ///
    /// The live objects of a state are kept per thread between the operations on that
    /// state (the engine runs the operations of one state back to back on one thread): an
    /// operation that fails and leaves the total observation of both backends unchanged
    /// leaves them as they are, any other outcome is followed by putting them back to the
    /// state (see [`Live`]).  A violation seen on objects that already went through other
    /// operations is re-run on a fresh restore of the snapshot before it is reported, so
    /// every reported history replays from the empty store; if the fresh run is clean, the
    /// earlier operations left an effect that no query shows, which is reported as a C20
    /// violation of its own.
    pub fn step(&self, st: &St, op: &Op) -> Step<St> {
        if std::time::Instant::now() > self.deadline {
            // hard wall cap: the transition is skipped (and counted; the run is then
            // reported as not exhaustive)
            self.skipped.fetch_add(1, Ordering::Relaxed);
            return Step {
                next: St { sid: st.sid, depth: st.depth + 1, mem: st.mem.clone(), redb: st.redb.clone(), model: st.model.clone(), obs_mem: st.obs_mem.clone(), obs_redb: st.obs_redb.clone() },
                key: state_key(&st.obs_mem, &st.obs_redb),
                class: "skipped:wall-cap".into(),
                violations: vec![],
            };
        }
        if !st.model.stored.is_empty() {
            self.nontrivial.fetch_add(1, Ordering::Relaxed);
        }
        block(async {
            let cached = CACHE.with(|c| c.borrow_mut().take());
            let live = match cached {
                Some((sid, live)) if sid == st.sid => Some(live),
                Some((_, stale)) => {
                    stale.discard().await;
                    None
                }
                None => None,
            };
            let since: Vec<Op> = live.as_ref().map(|l| l.since.clone()).unwrap_or_default();
            let reused = !since.is_empty();
            if reused {
                self.reused.fetch_add(1, Ordering::Relaxed);
            }
            let mut out = self.step_on(st, op, live).await;
            if reused && !out.all.is_empty() {
                self.reruns.fetch_add(1, Ordering::Relaxed);
                if let Some(l) = out.keep.take() {
                    l.discard().await;
                }
                let mut fresh = self.step_on(st, op, None).await;
                if fresh.all.is_empty() {
                    fresh.all.push((
                        Which::C20,
                        "earlier-operations-left-an-effect-no-query-shows".into(),
                        format!(
                            "after the operations {} on this state (each failed without changing any query answer, or was undone by restoring the state) {op:?} misbehaves: {}; on a fresh restore of the same state it does not",
                            serde_json::to_string(&since).unwrap_or_default(),
                            out.all.iter().map(|v| v.2.clone()).collect::<Vec<_>>().join(" | ")
                        ),
                    ));
                }
                out = fresh;
            }
            if let Some(l) = out.keep.take() {
                CACHE.with(|c| *c.borrow_mut() = Some((st.sid, l)));
            }
            let violations = out
                .all
                .into_iter()
                .filter(|(w, _, _)| *w == self.which)
                .map(|(_, k, what)| (k, what))
                .collect();
            Step { next: out.next, key: out.key, class: out.class, violations }
        })
    }

    /// Discards the live objects cached by this thread.
    pub fn flush_cache(&self) {
        if let Some((_, l)) = CACHE.with(|c| c.borrow_mut().take()) {
            block(l.discard());
        }
    }

    /// Puts the live objects back to the state `st` after an operation changed them.
    async fn put_back(&self, st: &St, live: &mut Live) -> Result<(), String> {
        live.mem = EitherStore::Left(st.mem.left().expect("left").async_clone().await);
        live.rollback()?;
        self.rollbacks.fetch_add(1, Ordering::Relaxed);
        if !live.restore_verified {
            // once per opened database: the rolled-back store answers as the state did
            let obs = observe(&live.redb, &self.fx, false).await;
            if let Some(d) = obs_diff(&st.obs_redb, &obs) {
                return Err(format!("redb savepoint rollback did not restore the state: {d}"));
            }
            live.restore_verified = true;
        }
        Ok(())
    }

    async fn step_on(&self, st: &St, op: &Op, live: Option<Live>) -> Out {
        let fx = &self.fx;
        let mut all: Vec<(Which, String, String)> = vec![];
        let mut t = std::time::Instant::now();
        let mut live = match live {
            Some(l) => l,
            None => match self.thaw(st).await {
                Ok(l) => l,
                Err(e) => {
                    self.machinery(format!("cannot restore a snapshot: {e}"));
                    return Out {
                        next: St { sid: st.sid, depth: st.depth + 1, mem: st.mem.clone(), redb: st.redb.clone(), model: st.model.clone(), obs_mem: st.obs_mem.clone(), obs_redb: st.obs_redb.clone() },
                        key: state_key(&st.obs_mem, &st.obs_redb),
                        class: "machinery".into(),
                        all: vec![],
                        keep: None,
                    };
                }
            },
        };
        live.since.push(op.clone());
        self.lap(0, &mut t);
        let mut model = st.model.clone();
        let want = model.apply(fx, op);
        if want == Kind::Undefined {
            self.machinery(format!("model undefined for {op:?}"));
        }
        let got_mem = apply_real(&live.mem, fx, op).await;
        let got_redb = apply_real(&live.redb, fx, op).await;
        self.lap(1, &mut t);
        let (mut seen_mem, mut seen_redb) = (Seen::default(), Seen::default());
        let obs_mem = observe_seen(&live.mem, fx, false, &mut seen_mem).await;
        let obs_redb = observe_seen(&live.redb, fx, false, &mut seen_redb).await;
        self.lap(2, &mut t);
        let want_obs = model.observe(fx, false);
        let key = state_key(&obs_mem, &obs_redb);

        // ---- C19: conformance
        for (name, got, obs) in [("inmemory", &got_mem, &obs_mem), ("redb", &got_redb, &obs_redb)] {
            if got.kind != want.as_str() {
                all.push((
                    Which::C19,
                    format!("{name}-{}-result-{}-expected-{}", op.name(), got.kind, want.as_str()),
                    format!("{name}: {} returned {} ({}), the model says {}", op.name(), got.kind, got.detail, want.as_str()),
                ));
            }
            if let Some(d) = obs_diff(&want_obs, obs) {
                all.push((Which::C19, format!("{name}-observation-differs-from-model"), format!("{name} after {}: {d}", op.name())));
            }
            let set = |q: &str| -> BTreeSet<String> {
                obs.iter().find(|(k, _)| k == q).map(|(_, a)| expand_runs(a)).unwrap_or_default()
            };
            let (stored, sampled, pruned) = (set("stored_ranges"), set("sampled_ranges"), set("pruned_ranges"));
            if !sampled.is_subset(&stored) {
                all.push((Which::C19, format!("{name}-sampled-not-within-stored"), format!("{name}: sampled {sampled:?} stored {stored:?}")));
            }
            if !pruned.is_disjoint(&stored) {
                all.push((Which::C19, format!("{name}-pruned-overlaps-stored"), format!("{name}: pruned {pruned:?} stored {stored:?}")));
            }
        }
        self.lap(2, &mut t);
        // extended queries (get_range over every bound pair): once per distinct state
        let first_visit = self.seen_ext.lock().unwrap().insert(key);
        if first_visit {
            self.extended_checked.fetch_add(1, Ordering::Relaxed);
            let want_ext = model.observe(fx, true);
            for (name, s) in [("inmemory", &live.mem), ("redb", &live.redb)] {
                let ext = observe(s, fx, true).await;
                if let Some(d) = obs_diff(&want_ext, &ext) {
                    all.push((Which::C19, format!("{name}-observation-differs-from-model"), format!("{name} after {}: {d}", op.name())));
                }
            }
        }

        self.lap(3, &mut t);
        // ---- C21: fork-free, hash-linked, hash index (every reached state)
        for (name, s, seen) in [("inmemory", &live.mem, &seen_mem), ("redb", &live.redb, &seen_redb)] {
            for (k, what) in fork_free(s, fx, name, seen).await {
                all.push((Which::C21, k, what));
            }
        }

        self.lap(4, &mut t);
        // ---- C20: a failed operation changes nothing; the corrected batch goes in
        let mut unchanged = true;
        for (name, got, before, after) in [
            ("inmemory", &got_mem, &st.obs_mem, &obs_mem),
            ("redb", &got_redb, &st.obs_redb, &obs_redb),
        ] {
            if got.failed() {
                if let Some(d) = obs_diff(before, after) {
                    unchanged = false;
                    all.push((
                        Which::C20,
                        format!("{name}-failed-{}-changed-the-store", op.name()),
                        format!("{name}: {} failed with {} ({}) and the observation changed (before -> after): {d}", op.name(), got.kind, got.detail),
                    ));
                }
            }
        }
        let corrected: &[Hid] = match op {
            Op::Insert { corrected, .. } => corrected,
            _ => &[],
        };
        let both_failed = got_mem.failed() && got_redb.failed();
        let mut dirty = !(both_failed && unchanged);
        // the successor: the parent itself when nothing changed (same key, dropped by the
        // engine's de-duplication), else a snapshot of the objects as they are now (not
        // needed at the last level, whose states are never expanded)
        let last_level = st.depth + 1 >= self.bd.depth && !self.replaying;
        let (mem, redb) = if dirty && !last_level {
            live.snapshot().await
        } else {
            (st.mem.clone(), st.redb.clone())
        };
        if !dirty && want != Kind::Ok && !corrected.is_empty() {
            self.corrections.fetch_add(1, Ordering::Relaxed);
            let fix = Op::Insert { batch: corrected.to_vec(), checked: true, shape: "corrected".into(), corrected: vec![] };
            let mut m2 = st.model.clone();
            let want2 = m2.apply(fx, &fix);
            if want2 == Kind::Ok {
                // run the correction on the very objects that refused the bad batch (when
                // the model refuses the correction too, e.g. its range is taken, there is
                // nothing to demand here)
                dirty = true;
                self.corrections_accepted.fetch_add(1, Ordering::Relaxed);
                let want2_obs = m2.observe(fx, false);
                for (name, s) in [("inmemory", &live.mem), ("redb", &live.redb)] {
                    let got2 = apply_real(s, fx, &fix).await;
                    if got2.kind != "ok" {
                        all.push((
                            Which::C20,
                            format!("{name}-corrected-batch-refused"),
                            format!(
                                "{name}: after the rejected batch, the corrected batch [{}] failed with {} ({})",
                                corrected.iter().map(|x| x.to_string()).collect::<Vec<_>>().join(","),
                                got2.kind,
                                got2.detail
                            ),
                        ));
                    } else if let Some(d) = obs_diff(&want2_obs, &observe(s, fx, false).await) {
                        all.push((
                            Which::C20,
                            format!("{name}-corrected-batch-wrong-state"),
                            format!("{name}: after the rejected batch, the corrected batch went in but: {d}"),
                        ));
                    }
                }
            }
        }
        // ---- re-insertion probe after a successful removal (C19): what the removal left
        // behind for that height cannot be seen by any query until a header is there again
        if let (Op::Remove { h }, Kind::Ok, true) = (op, want, all.is_empty()) {
            let candidates: Vec<Hid> = fx
                .universe()
                .into_iter()
                .filter(|x| x.h == *h && model.clone().insert(fx, &[*x], true) == Kind::Ok)
                .collect();
            for (i, x) in candidates.iter().enumerate() {
                if i > 0 {
                    // back to the state after the removal
                    if let Err(e) = self.put_back(st, &mut live).await {
                        self.machinery(e);
                        break;
                    }
                    apply_real(&live.mem, fx, op).await;
                    apply_real(&live.redb, fx, op).await;
                }
                self.probes.fetch_add(1, Ordering::Relaxed);
                let probe = Op::Insert { batch: vec![*x], checked: true, shape: "reinsert-probe".into(), corrected: vec![] };
                let mut m2 = model.clone();
                let want2 = m2.apply(fx, &probe);
                let want2_obs = m2.observe(fx, false);
                for (name, s) in [("inmemory", &live.mem), ("redb", &live.redb)] {
                    let got2 = apply_real(s, fx, &probe).await;
                    if got2.kind != want2.as_str() {
                        all.push((
                            Which::C19,
                            format!("{name}-reinsert-after-removal-result-{}-expected-{}", got2.kind, want2.as_str()),
                            format!("{name}: re-inserting {x} right after remove_height({h}) returned {} ({}), the model says {}", got2.kind, got2.detail, want2.as_str()),
                        ));
                    } else if let Some(d) = obs_diff(&want2_obs, &observe(s, fx, false).await) {
                        all.push((
                            Which::C19,
                            format!("{name}-reinsert-after-removal-differs-from-model"),
                            format!("{name}: after remove_height({h}) and re-inserting {x}: {d}"),
                        ));
                    }
                }
            }
            dirty = true;
        }
        self.lap(5, &mut t);
        // keep the live objects for the next operation on this state
        let mut keep = None;
        if !all.is_empty() {
            live.discard().await; // never continue on objects that misbehaved
        } else if dirty {
            match self.put_back(st, &mut live).await {
                Ok(()) => keep = Some(live),
                Err(e) => {
                    self.machinery(e);
                    live.discard().await;
                }
            }
        } else {
            keep = Some(live);
        }
        self.lap(6, &mut t);
        self.image_bytes_max.fetch_max(redb.bytes() as u64, Ordering::Relaxed);

        let class = format!(
            "{}:{}",
            op.name(),
            if got_mem.kind == "ok" { "ok".to_string() } else { format!("err:{}", got_mem.kind) }
        );
        Out {
            next: St {
                sid: self.next_sid.fetch_add(1, Ordering::Relaxed),
                depth: st.depth + 1,
                mem,
                redb,
                model,
                obs_mem: Arc::new(obs_mem),
                obs_redb: Arc::new(obs_redb),
            },
            key,
            class,
            all,
            keep,
        }
    }
}

struct Out {
    next: St,
    key: u64,
    class: String,
    all: Vec<(Which, String, String)>,
    keep: Option<Live>,
}

thread_local! {
    static CACHE: std::cell::RefCell<Option<(u64, Live)>> = const { std::cell::RefCell::new(None) };
}

unsafe extern "C" {
    fn mallopt(param: i32, value: i32) -> i32;
}

/// redb builds ~1 MB vectors on every open (allocator state); with glibc's defaults each
/// of them is mmap'ed / trimmed away again, and the page faults of 16 threads serialise on
/// the process' mm lock (measured: 6-10x on the open).  Keep freed memory in the arenas.
fn tune_malloc() {
    const M_TRIM_THRESHOLD: i32 = -1;
    const M_TOP_PAD: i32 = -2;
    const M_MMAP_THRESHOLD: i32 = -3;
    unsafe {
        mallopt(M_MMAP_THRESHOLD, 32 << 20);
        mallopt(M_TRIM_THRESHOLD, i32::MAX);
        mallopt(M_TOP_PAD, 64 << 20);
    }
}

fn state_key(m: &Obs, r: &Obs) -> u64 {
    obs_key(m) ^ obs_key(r).rotate_left(17)
}

fn expand_runs(s: &str) -> BTreeSet<String> {
    let mut out = BTreeSet::new();
    for part in s.split(',').filter(|p| !p.is_empty()) {
        if let Some((lo, hi)) = part.split_once('-') {
            if let (Ok(lo), Ok(hi)) = (lo.parse::<u64>(), hi.parse::<u64>()) {
                for h in lo..=hi {
                    out.insert(format!("{h:06}"));
                }
                continue;
            }
        }
        out.insert(part.to_string());
    }
    out
}

// ---------------------------------------------------------------------------------------
// entry point of the three binaries

pub const RULE: &str = "breadth-first search over ALL operation histories up to the depth bound from the empty store, \
de-duplicated on the total observation of both backends (answers of every query over heights 0..=N+1 and over the hashes of all \
fixture headers + one unknown hash; get_range over every bound pair is compared once per distinct state). Fixture: honest chain A1..AN and fork B3..BN (B3 child of A2). Alphabet per state: insert \
(through the real VerifiedExtendedHeaders::try_from) of every chain of adjacent fixture headers of length <= L (pure A, pure B, and \
A->B across the fork point); batches that try_from must refuse, derived from every chain of length <= I: reversed, one element \
doubled, continued by the other chain's header (A/B mixed), one interior element missing (gap, from chains of length <= I+1), and \
the empty batch; unverified batches (unsafe new_unchecked) whose only defect is a duplicated hash: every chain of length 2..=D that \
the model accepts in this state, with each stored header inserted at each interior position and each own element repeated at each \
later position that keeps first/last; remove_height(h), mark_as_sampled(h), update_sampling_metadata(h, {c0}|{c1}|{c0,c1}) for \
every h in 0..=N+1. quick: N=5 L=3 I=2 D=2 depth 3. thorough: two searches, N=6 L=4 I=4 D=3 depth 3 and N=5 L=3 I=2 D=2 depth 5. \
Every transition is executed on InMemoryStore and RedbStore (both behind EitherStore) and on the reference model; after every \
rejected batch whose correction the model accepts, the corrected batch is applied to the same objects; after every successful \
remove_height(h), every single header of height h that the model accepts back is re-inserted on the same objects and compared \
with the model (removal is the one operation that makes data unobservable, so this probe is what keeps de-duplication on \
observations sound). state = distinct total \
observation; transition = one execution of the real operation on both backends (counted by the engine; see `searches` for the \
per-search counts); (state, operation) pairs are distinct by construction; non-trivial = the operation was applied to a non-empty store";

pub const ASSUMPTIONS: &[&str] = &[
    "header bytes, keys and CIDs are payload (random generator / VERIF_SEED); oracles use identities (chain, height) only; the fixture's parent relation is validated against the real verify_adjacent for every ordered pair at start-up",
    "header times lie two hours in the past, one second apart: the wall-clock checks inside verify() cannot flip during a run",
    "the redb database lives in an in-memory StorageBackend; a snapshot is the byte image between two operations, reopened through redb's normal repair-on-open (crash images inside an operation are C22's subject)",
    "batches passed through `unsafe new_unchecked` are limited to those whose only defect is a duplicated hash; other contract-violating batches (non-consecutive heights, unlinked headers) have no specified behaviour and are not generated",
    "sampling metadata is compared as a set of CIDs (the statement fixes accumulation, not order)",
    "histories longer than the depth bound, more than two chains, and heights above N+1 are outside the bound",
];

fn bounds(n: u64, max_len: usize, max_dup_len: usize, max_inv_len: usize, depth: usize) -> Bounds {
    Bounds { n, max_len, max_dup_len, max_inv_len, invalid_batches: true, depth, max_states: 3_000_000, wall_cap: Duration::from_secs(86_400) }
}

pub fn run(id: &str, which: Which) -> ! {
    tune_malloc();
    let ctx = Ctx::from_args(id);
    let depth_override: Option<usize> = std::env::var("LV_STORE_DEPTH").ok().and_then(|s| s.parse().ok());
    // (bounds, share of the wall budget after which its transitions are skipped)
    let (searches, budget): (Vec<Bounds>, u64) = if ctx.replay.is_some() {
        (vec![bounds(6, 4, 3, 4, 0)], 86_400)
    } else if ctx.quick() {
        (vec![bounds(5, 3, 2, 2, depth_override.unwrap_or(3))], 57)
    } else {
        (
            vec![
                bounds(6, 4, 3, 4, depth_override.unwrap_or(3)),
                bounds(5, 3, 2, 2, depth_override.map(|d| d + 2).unwrap_or(5)),
            ],
            840,
        )
    };
    let deadline = ctx.start + Duration::from_secs(budget);
    let mut rep = Report::new();
    rep.sample_cap = 8;
    let mut per_search: Vec<Value> = vec![];
    let mut nontrivial = 0u64;
    let prof_on = std::env::var("LV_STORE_PROF").is_ok();

    for bd in searches {
        let fx = match Fixture::new(bd.n, ctx.seed) {
            Ok(f) => f,
            Err(e) => machinery_error(&ctx.id, &e),
        };
        let mut env = Env::new(fx, bd, which);
        env.deadline = deadline;
        let (t0, s0, tr0) = (ctx.elapsed_s(), rep.states, rep.transitions);
        if let Some(case) = ctx.replay_case() {
            env.replaying = true;
            let hist: Vec<Op> = match serde_json::from_value(case["history"].clone()) {
                Ok(h) => h,
                Err(e) => machinery_error(&ctx.id, &format!("bad replay history: {e}")),
            };
            let (mut st, _) = env.init();
            for (i, op) in hist.iter().enumerate() {
                let s = env.step(&st, op);
                rep.case(s.key, &s.class, true);
                for (k, what) in s.violations {
                    rep.violation(&k, what, json!({ "history": &hist[..=i] }));
                }
                st = s.next;
            }
        } else {
            let (init, key) = env.init();
            let cfg = BfsConfig { max_depth: env.bd.depth, max_states: env.bd.max_states, wall_cap: env.bd.wall_cap, dedup: true };
            bfs(init, key, &cfg, |s| env.ops(s), |s, o| env.step(s, o), &mut rep);
            rayon::broadcast(|_| env.flush_cache());
        }
        env.flush_cache();
        if let Some(m) = env.machinery.lock().unwrap().clone() {
            machinery_error(&ctx.id, &m);
        }
        nontrivial += env.nontrivial.load(Ordering::Relaxed);
        let skipped = env.skipped.load(Ordering::Relaxed);
        if skipped > 0 {
            rep.cap_hit(&format!(
                "wall cap {budget}s: {skipped} transitions of the search N={} depth={} were skipped (deepest level incomplete)",
                env.bd.n, env.bd.depth
            ));
            // skipped transitions are not executions of the real code
            rep.transitions -= skipped;
            rep.traces -= skipped;
            rep.evaluations -= skipped;
            rep.classes.remove("skipped:wall-cap");
        }
        let prof: Vec<f64> = env.prof.iter().map(|a| a.load(Ordering::Relaxed) as f64 / 1e9).collect();
        per_search.push(json!({
            "bounds": {"N": env.bd.n, "L": env.bd.max_len, "D": env.bd.max_dup_len, "I": env.bd.max_inv_len, "invalid_batches": env.bd.invalid_batches, "depth": env.bd.depth},
            "states": rep.states - s0,
            "transitions": rep.transitions - tr0,
            "skipped_by_wall_cap": skipped,
            "wall_s": ctx.elapsed_s() - t0,
            "static_alphabet_size": env.statics.len(),
            "corrected_batches_tried": env.corrections.load(Ordering::Relaxed),
            "corrected_batches_applied_after_the_rejection": env.corrections_accepted.load(Ordering::Relaxed),
            "reinsert_probes_after_removal": env.probes.load(Ordering::Relaxed),
            "snapshot_restores": env.thaws.load(Ordering::Relaxed),
            "transitions_on_reused_live_objects": env.reused.load(Ordering::Relaxed),
            "savepoint_rollbacks": env.rollbacks.load(Ordering::Relaxed),
            "reruns_on_fresh_restore": env.reruns.load(Ordering::Relaxed),
            "states_with_extended_get_range_queries": env.extended_checked.load(Ordering::Relaxed),
            "redb_image_nonzero_bytes_max": env.image_bytes_max.load(Ordering::Relaxed),
            "thread_seconds_thaw_apply_observe_extended_c21_correction_putback": prof,
        }));
        if prof_on {
            eprintln!("search {}", per_search.last().unwrap());
        }
    }
    rep.extras.remove("bfs_unexpanded_frontier");
    rep.extra("searches", Value::Array(per_search));
    rep.extra("distinct_nontrivial_by_construction", json!(nontrivial));
    rep.extra("oracle", Value::String(match which {
        Which::C19 => "C19: result kind + total observation of both backends equal the reference model; sampled within stored; pruned disjoint from stored",
        Which::C20 => "C20: every failing transition leaves the total observation of that backend unchanged; the corrected batch is then accepted whenever the model accepts it",
        Which::C21 => "C21: in every reached state consecutive stored heights pass the real verify_adjacent and every stored header is found by its hash, as the same header, at its height",
    }.into()));
    let required: &[&str] = &[
        "insert:ok",
        "insert:err:HeadersVerificationFailed",
        "insert:err:ConstraintsNotMet",
        "insert:err:NeighborsVerificationFailed",
        "insert:err:HashExists",
        "remove_height:ok",
        "remove_height:err:NotFound",
        "mark_as_sampled:ok",
        "mark_as_sampled:err:NotFound",
        "update_sampling_metadata:ok",
        "update_sampling_metadata:err:NotFound",
    ];
    finish(&ctx, rep, Spec { rule: RULE, assumptions: ASSUMPTIONS, required_classes: required, exhaustive: true })
}
