//! C16: honest encodings and the structured (prost Raw type) adversaries of every decoder.
#![allow(dead_code)]

use std::sync::Arc;

use celestia_proto::celestia::core::v1::proof::{NmtProof as RawNmtProof, Proof as RawMerkleProof, RowProof as RawRowProof, ShareProof as RawShareProof};
use celestia_proto::proof::pb::Proof as RawProof;
use celestia_proto::share::eds::byzantine::pb::{BadEncoding as RawBefp, Share as RawShareWithProof};
use celestia_proto::shwap::{Row as RawRow, RowNamespaceData as RawRnd, Sample as RawSample, Share as RawShare};
use celestia_types::namespace_data::NamespaceDataId;
use celestia_types::nmt::Namespace;
use celestia_types::row::{Row, RowId};
use celestia_types::sample::{Sample, SampleId};
use celestia_types::AxisType;
use lv_core::machinery_error;
use prost::Message;
use tendermint_proto::Protobuf;

use crate::c16_dec::{Cx, D, Frame, Fx, TypedGen};
use crate::c16_fix::Env;
use crate::c16_wire::{EXTREMES, LIST_LENS, put_varint};
use crate::proofs;
use crate::shwap_squares as sqs;
use crate::square as bsq;

const ID: &str = "C16";

/// Mixed-radix digits of `n` (least significant first).
pub fn digits(mut n: usize, dims: &[usize]) -> Vec<usize> {
    dims.iter()
        .map(|d| {
            let x = n % d;
            n /= d;
            x
        })
        .collect()
}

fn product(dims: &[usize]) -> usize {
    dims.iter().product()
}

fn fx(d: D, name: String, cx: Cx, frame: Frame, honest: Vec<u8>, honest_ok: bool) -> Fx {
    Fx { d, name, cx, frame, honest, honest_ok, typed_n: 0, typed: None, all_values: false }
}

fn with_typed(mut f: Fx, n: usize, g: TypedGen) -> Fx {
    f.typed_n = n;
    f.typed = Some(g);
    f
}

pub fn delimited(payload: &[u8]) -> Vec<u8> {
    let mut o = vec![];
    put_varint(payload.len() as u64, &mut o);
    o.extend_from_slice(payload);
    o
}

fn cycle<T: Clone>(items: &[T], fallback: T, n: usize) -> Vec<T> {
    (0..n).map(|i| if items.is_empty() { fallback.clone() } else { items[i % items.len()].clone() }).collect()
}

fn parity_node() -> Vec<u8> {
    let mut v = vec![0xffu8; 58];
    v.extend_from_slice(&[0x11; 32]);
    v
}

// ------------------------------------------------------------------ the NMT proof product

/// start(10) x end(10) x node count(7) x leaf_hash form(5) x ignore flag(2)
pub const PROOF_DIMS_FULL: [usize; 5] = [10, 10, 7, 5, 2];
pub const PROOF_DIMS_QUICK: [usize; 5] = [10, 10, 7, 2, 1];

pub fn proof_dims(thorough: bool) -> [usize; 5] {
    if thorough { PROOF_DIMS_FULL } else { PROOF_DIMS_QUICK }
}

pub fn proof_variant(h: &RawProof, d: &[usize]) -> (String, RawProof) {
    let mut p = h.clone();
    if d[0] > 0 {
        p.start = EXTREMES[d[0] - 1] as i64;
    }
    if d[1] > 0 {
        p.end = EXTREMES[d[1] - 1] as i64;
    }
    if d[2] > 0 {
        p.nodes = cycle(&h.nodes, parity_node(), LIST_LENS[d[2] - 1]);
    }
    let first = h.nodes.first().cloned().unwrap_or_else(parity_node);
    match d[3] {
        0 => {}
        1 => p.leaf_hash = if h.leaf_hash.is_empty() { first } else { vec![] },
        2 => p.leaf_hash = first[..89].to_vec(),
        3 => p.leaf_hash = vec![1],
        _ => {
            let mut x = first;
            x.push(0);
            p.leaf_hash = x;
        }
    }
    if d[4] > 0 {
        p.is_max_namespace_ignored = !h.is_max_namespace_ignored;
    }
    (format!("proof[start#{} end#{} nodes#{} leaf_hash#{} ignore#{}]", d[0], d[1], d[2], d[3], d[4]), p)
}

// ------------------------------------------------------------------ squares helpers

fn ns_of(b: &sqs::Ns) -> Namespace {
    Namespace::from_raw(b).unwrap_or_else(|e| machinery_error(ID, &format!("fixture namespace: {e}")))
}

fn sample_positions(ew: usize) -> Vec<(usize, usize)> {
    let w = ew / 2;
    let mut v = vec![(0, 0), (0, ew - 1), (ew - 1, 0), (ew - 1, ew - 1), (w - 1, w - 1), (w, w), (w - 1, w)];
    v.sort();
    v.dedup();
    v
}

fn raw_sample(env: &Env, sq: usize, r: usize, c: usize, ax: AxisType) -> RawSample {
    let s = Sample::new(r as u16, c as u16, ax, &env.squares[sq].eds).unwrap_or_else(|e| machinery_error(ID, &format!("fixture Sample::new: {e}")));
    RawSample::from(s)
}

const I32S: [i32; 6] = [0, 1, -1, 2, i32::MAX, i32::MIN];

fn sample_typed(h: RawSample, thorough: bool) -> (usize, TypedGen) {
    let pd = proof_dims(thorough);
    let n_prod = product(&pd);
    let combo = [6usize, 5, 9];
    let n_combo = product(&combo);
    let g: TypedGen = Arc::new(move |ord| {
        let mut s = h.clone();
        let hp = h.proof.clone().unwrap_or_default();
        if ord < n_prod {
            let (desc, p) = proof_variant(&hp, &digits(ord, &pd));
            s.proof = Some(p);
            return (desc, s.encode_to_vec());
        }
        let d = digits(ord - n_prod, &combo);
        s.proof_type = I32S[d[0]];
        let data = h.share.clone().unwrap_or_default().data;
        s.share = match d[1] {
            0 => h.share.clone(),
            1 => None,
            2 => Some(RawShare { data: vec![] }),
            3 => Some(RawShare { data: data[..511.min(data.len())].to_vec() }),
            _ => {
                let mut x = data.clone();
                x.push(0);
                Some(RawShare { data: x })
            }
        };
        s.proof = match d[2] {
            0 => Some(hp.clone()),
            1 => None,
            2 => {
                let mut p = hp.clone();
                p.leaf_hash = hp.nodes.first().cloned().unwrap_or_else(parity_node);
                Some(p)
            }
            k => {
                let mut p = hp.clone();
                p.nodes = cycle(&hp.nodes, parity_node(), LIST_LENS[k - 3]);
                Some(p)
            }
        };
        (format!("sample[proof_type={} share#{} proof#{}]", s.proof_type, d[1], d[2]), s.encode_to_vec())
    });
    (n_prod + n_combo, g)
}

fn row_raws(env: &Env, sq: usize, i: usize) -> (RawRow, RawRow) {
    let row = Row::new(i as u16, &env.squares[sq].eds).unwrap_or_else(|e| machinery_error(ID, &format!("fixture Row::new: {e}")));
    let left = RawRow::from(row.clone());
    let n = row.shares.len();
    let right = RawRow { shares_half: row.shares[n / 2..].iter().map(|s| RawShare { data: s.to_vec() }).collect(), half_side: 1 };
    (left, right)
}

const ROW_SIZES: [usize; 7] = [512, 0, 1, 511, 513, 64, 65];

fn row_typed(h: RawRow, ew: usize) -> (usize, TypedGen) {
    let w = ew / 2;
    let counts: Vec<usize> = {
        let mut v = vec![0, 1, 2, 3, w.saturating_sub(1), w + 1, 2 * w, 63, 64, 65, 200];
        v.sort();
        v.dedup();
        v
    };
    let dims = [counts.len(), 6, ROW_SIZES.len()];
    let n_prod = product(&dims);
    let n_mixed = 2 * (ROW_SIZES.len() - 1);
    let g: TypedGen = Arc::new(move |ord| {
        let mut r = h.clone();
        if ord < n_prod {
            let d = digits(ord, &dims);
            let size = ROW_SIZES[d[2]];
            let shares: Vec<RawShare> = cycle(&h.shares_half, RawShare { data: vec![0; 512] }, counts[d[0]])
                .into_iter()
                .map(|s| {
                    let mut data = s.data;
                    data.resize(size, 0);
                    RawShare { data }
                })
                .collect();
            r.shares_half = shares;
            r.half_side = I32S[d[1]];
            return (format!("row[count={} half_side={} share_size={size}]", counts[d[0]], r.half_side), r.encode_to_vec());
        }
        let k = ord - n_prod;
        let size = ROW_SIZES[1 + k / 2];
        r.half_side = (k % 2) as i32;
        if let Some(s) = r.shares_half.first_mut() {
            s.data.resize(size, 0);
        }
        (format!("row[first share of {size} bytes, half_side={}]", r.half_side), r.encode_to_vec())
    });
    (n_prod + n_mixed, g)
}

fn rnd_typed(h: RawRnd, thorough: bool) -> (usize, TypedGen) {
    let pd = proof_dims(thorough);
    let n_prod = product(&pd);
    let hn = h.shares.len();
    let counts: Vec<usize> = {
        let mut v = vec![0, 1, hn, hn + 1, 63, 64, 65, 200];
        v.sort();
        v.dedup();
        v
    };
    let combo = [counts.len(), 5, 4];
    let n_combo = product(&combo);
    let g: TypedGen = Arc::new(move |ord| {
        let mut r = h.clone();
        let hp = h.proof.clone().unwrap_or_default();
        if ord < n_prod {
            let (desc, p) = proof_variant(&hp, &digits(ord, &pd));
            r.proof = Some(p);
            return (desc, r.encode_to_vec());
        }
        let d = digits(ord - n_prod, &combo);
        let template = RawShare { data: { let mut s = vec![0u8; 512]; s[28] = 7; s } };
        r.shares = cycle(&h.shares, template, counts[d[0]])
            .into_iter()
            .map(|s| {
                let mut data = s.data;
                match d[1] {
                    0 => {}
                    1 => data[20] ^= 0x40,
                    2 => data.truncate(511),
                    3 => data.push(0),
                    _ => data.clear(),
                }
                RawShare { data }
            })
            .collect();
        r.proof = match d[2] {
            0 => Some(hp.clone()),
            1 => None,
            2 => {
                let mut p = hp.clone();
                p.leaf_hash = if hp.leaf_hash.is_empty() { hp.nodes.first().cloned().unwrap_or_else(parity_node) } else { vec![] };
                Some(p)
            }
            _ => Some(RawProof { start: hp.start, end: hp.start, nodes: vec![], leaf_hash: vec![], is_max_namespace_ignored: true }),
        };
        (format!("rnd[shares={} share_form#{} proof#{}]", counts[d[0]], d[1], d[2]), r.encode_to_vec())
    });
    (n_prod + n_combo, g)
}

/// (namespace, label) the row-namespace-data fixtures ask for in square `sq`.
fn rnd_namespaces(sq: &sqs::Sq) -> Vec<(sqs::Ns, &'static str)> {
    let mut v = vec![];
    let mut present: Vec<sqs::Ns> = sq.ods_ns.clone();
    present.sort();
    present.dedup();
    if let Some(f) = present.first() {
        v.push((*f, "first"));
    }
    if let Some(m) = present.get(present.len() / 2) {
        v.push((*m, "middle"));
    }
    if let Some(l) = present.last() {
        v.push((*l, "last"));
    }
    v.push((sqs::absent_ns_after(1), "absent-inside"));
    v.push((sqs::PARITY, "parity"));
    v.dedup_by(|a, b| a.0 == b.0);
    v
}

// ------------------------------------------------------------------ BEFP

fn befp_raw(b: &crate::c16_fix::BefpSquare, ax: bsq::Ax, idx: usize) -> RawBefp {
    let w = b.sq.w;
    let shares = (0..w)
        .map(|j| {
            let (r, c) = bsq::Sq::coord(ax, idx, j);
            let (i, nodes) = b.sq.cell_proof(r, c, ax);
            let mut data = b.sq.ns(r, c).to_vec();
            data.extend_from_slice(b.sq.cell(r, c));
            RawShareWithProof {
                data,
                proof: Some(RawProof { start: i as i64, end: i as i64 + 1, nodes: nodes.iter().map(|n| n.to_bytes()).collect(), leaf_hash: vec![], is_max_namespace_ignored: true }),
                proof_axis: ax as i32,
            }
        })
        .collect();
    RawBefp { header_hash: b.header.hash().as_bytes().to_vec(), height: b.header.height(), shares, index: idx as u32, axis: ax as i32 }
}

fn befp_typed(h: RawBefp, thorough: bool) -> (usize, TypedGen) {
    let w = h.shares.len();
    let height = h.height;
    let idxs: Vec<u32> = vec![0, 1, (w - 1) as u32, w as u32, 65535, 65536, i32::MAX as u32, 1 << 31, u32::MAX];
    let heights: Vec<u64> = if thorough { vec![height, 0, 1, height + 1, i64::MAX as u64, 1 << 63, u64::MAX] } else { vec![height, height + 1, u64::MAX] };
    let axes = [0i32, 1, -1, 2];
    let counts: Vec<usize> = vec![w, 0, 1, w - 1, w + 1, 63, 64, 65, 200];
    let nvar = if thorough { 6 } else { 3 };
    // which entries keep their share: all, left half, right half, even, odd positions
    let dims = [idxs.len(), heights.len(), axes.len(), counts.len(), nvar, 5];
    let n_combo = product(&dims);
    let pd = proof_dims(thorough);
    let n_prod = product(&pd);
    let g: TypedGen = Arc::new(move |ord| {
        let mut p = h.clone();
        if ord < n_prod {
            let hp = h.shares[0].proof.clone().unwrap_or_default();
            let (desc, pv) = proof_variant(&hp, &digits(ord, &pd));
            p.shares[0].proof = Some(pv);
            return (format!("befp.share0.{desc}"), p.encode_to_vec());
        }
        let d = digits(ord - n_prod, &dims);
        p.index = idxs[d[0]];
        p.height = heights[d[1]];
        p.axis = axes[d[2]];
        p.shares = cycle(&h.shares, RawShareWithProof::default(), counts[d[3]]);
        match d[4] {
            0 => {}
            1 => p.shares.iter_mut().for_each(|s| s.proof = None),
            2 => p.shares.iter_mut().for_each(|s| {
                s.data.pop();
            }),
            k => {
                let n = [64, 65, 200][k - 3];
                if let Some(s) = p.shares.first_mut() {
                    if let Some(pr) = &mut s.proof {
                        pr.nodes = cycle(&pr.nodes.clone(), parity_node(), n);
                    }
                }
            }
        }
        let n = p.shares.len();
        for (j, sh) in p.shares.iter_mut().enumerate() {
            let keep = match d[5] {
                0 => true,
                1 => j < n / 2,
                2 => j >= n / 2,
                3 => j % 2 == 0,
                _ => j % 2 == 1,
            };
            if !keep {
                *sh = RawShareWithProof::default();
            }
        }
        (format!("befp[index={} height={} axis={} shares={} variant#{} present#{}]", p.index, p.height, p.axis, counts[d[3]], d[4], d[5]), p.encode_to_vec())
    });
    (n_prod + n_combo, g)
}

// ------------------------------------------------------------------ fixtures: types family

fn check_proto(f: &Fx) {
    if f.frame != Frame::Raw && crate::c16_dec::tree_of(f.frame, &f.honest).map(|(t, _)| crate::c16_dec::encode_tree(f.frame, &t)) != Some(f.honest.clone()) {
        machinery_error(ID, &format!("fixture {}/{}: the wire walker does not round-trip the honest encoding", f.d.name(), f.name));
    }
}

pub fn fixtures(env: &Env, d: D) -> Vec<Fx> {
    let t = env.thorough;
    let mut out: Vec<Fx> = vec![];
    match d {
        D::ExtendedHeader => {
            for (i, h) in env.headers.iter().enumerate() {
                if !t && i >= 3 {
                    break;
                }
                let bytes = h.clone().encode_vec();
                out.push(fx(d, format!("height-{}", i + 1), Cx::None, Frame::Plain, bytes, true));
            }
        }
        D::Sample | D::ShrexSample => {
            for (si, sq) in env.squares.iter().enumerate() {
                let ew = sq.eds_width();
                let mut pos = sample_positions(ew);
                if !t && ew > 2 {
                    pos.retain(|(r, c)| (*r == 0 && *c == 0) || (*r == ew / 2 && *c == ew / 2) || (*r == ew - 1 && *c == ew - 1) || (*r == ew / 2 - 1 && *c == ew / 2));
                }
                for (r, c) in pos {
                    for ax in [AxisType::Row, AxisType::Col] {
                        if !t && ew == 2 && ax == AxisType::Col && (r, c) != (0, 0) {
                            continue;
                        }
                        let raw = raw_sample(env, si, r, c, ax);
                        let id = SampleId::new(r as u16, c as u16, env.height_of_square(si)).unwrap();
                        let (bytes, frame) = if d == D::Sample { (raw.encode_to_vec(), Frame::Plain) } else { (raw.encode_length_delimited_to_vec(), Frame::Seq) };
                        let f = fx(d, format!("sq{si}-w{ew}-r{r}-c{c}-{ax:?}"), Cx::Sample { id, sq: si }, frame, bytes, true);
                        if d == D::Sample {
                            let (n, g) = sample_typed(raw, t);
                            out.push(with_typed(f, n, g));
                        } else {
                            out.push(f);
                        }
                    }
                }
            }
        }
        D::Row | D::ShrexRow => {
            for (si, sq) in env.squares.iter().enumerate() {
                let ew = sq.eds_width();
                let mut rows = vec![0, ew / 2 - 1, ew / 2, ew - 1];
                rows.sort();
                rows.dedup();
                for i in rows {
                    let (left, right) = row_raws(env, si, i);
                    let id = RowId::new(i as u16, env.height_of_square(si)).unwrap();
                    for (side, raw) in [("left", left), ("right", right)] {
                        if side == "right" && !(i == 0 || i == ew / 2) {
                            continue;
                        }
                        let (bytes, frame) = if d == D::Row { (raw.encode_to_vec(), Frame::Plain) } else { (raw.encode_length_delimited_to_vec(), Frame::Seq) };
                        let f = fx(d, format!("sq{si}-w{ew}-row{i}-{side}"), Cx::Row { id, sq: si }, frame, bytes, true);
                        if d == D::Row && (ew <= 8 || side == "left") {
                            let (n, g) = row_typed(raw, ew);
                            out.push(with_typed(f, n, g));
                        } else {
                            out.push(f);
                        }
                    }
                }
            }
        }
        D::RowNamespaceData => {
            for (si, sq) in env.squares.iter().enumerate() {
                let h = env.height_of_square(si);
                for (nsb, label) in rnd_namespaces(sq) {
                    let ns = ns_of(&nsb);
                    let rows = sq.eds.get_namespace_data(ns, &sq.dah, h).unwrap_or_else(|e| machinery_error(ID, &format!("fixture get_namespace_data: {e}")));
                    let n = rows.len();
                    for (k, (id, rnd)) in rows.into_iter().enumerate() {
                        if k > 0 && k + 1 < n {
                            continue;
                        }
                        let raw = RawRnd::from(rnd);
                        let f = fx(d, format!("sq{si}-{label}-row{}", id.row_index()), Cx::Rnd { id, sq: si }, Frame::Plain, raw.encode_to_vec(), true);
                        let (tn, g) = rnd_typed(raw, t);
                        out.push(with_typed(f, tn, g));
                    }
                }
            }
        }
        D::ShrexNamespaceData => {
            for (si, sq) in env.squares.iter().enumerate() {
                let h = env.height_of_square(si);
                let mut nss = rnd_namespaces(sq);
                nss.push((sqs::ns_v0(0), "below-all"));
                for (nsb, label) in nss {
                    let ns = ns_of(&nsb);
                    let rows = sq.eds.get_namespace_data(ns, &sq.dah, h).unwrap_or_else(|e| machinery_error(ID, &format!("fixture get_namespace_data: {e}")));
                    let mut bytes = vec![];
                    for (_, rnd) in &rows {
                        bytes.extend(RawRnd::from(rnd.clone()).encode_length_delimited_to_vec());
                    }
                    let id = NamespaceDataId::new(ns, h).unwrap();
                    let f = fx(d, format!("sq{si}-{label}-{}rows", rows.len()), Cx::Nd { id, sq: si }, Frame::Seq, bytes, true);
                    if si == 2 && label == "first" {
                        // row counts around the u16 limit of NamespaceData, as minimal rows
                        const COUNTS: [usize; 7] = [0, 1, 2, 65535, 65536, 65537, 200_000];
                        let g: TypedGen = Arc::new(move |ord| {
                            let (n, form) = (COUNTS[ord % 7], ord / 7);
                            let item: &[u8] = if form == 0 { &[0x00] } else { &[0x02, 0x12, 0x00] };
                            (format!("namespace-data[{n} rows of form#{form}]"), item.repeat(n))
                        });
                        out.push(with_typed(f, 14, g));
                    } else {
                        out.push(f);
                    }
                }
            }
        }
        D::Befp => {
            for (bi, b) in env.befp.iter().enumerate() {
                let claims: Vec<(bsq::Ax, usize)> = match b.corrupt {
                    Some(c) => vec![c],
                    None => vec![(bsq::Ax::Row, 0), (bsq::Ax::Col, b.sq.w - 1)],
                };
                for (ax, idx) in claims {
                    let raw = befp_raw(b, ax, idx);
                    let f = fx(d, format!("{}-claim-{}{idx}", b.name, if ax == bsq::Ax::Row { "row" } else { "col" }), Cx::Befp { b: bi }, Frame::Plain, raw.encode_to_vec(), b.corrupt.is_some());
                    let (n, g) = befp_typed(raw, t);
                    out.push(with_typed(f, n, g));
                }
            }
        }
        D::NmtProof => {
            for (si, sq) in env.squares.iter().enumerate() {
                let h = env.height_of_square(si);
                for (nsb, label) in rnd_namespaces(sq) {
                    let ns = ns_of(&nsb);
                    let rows = sq.eds.get_namespace_data(ns, &sq.dah, h).unwrap_or_else(|e| machinery_error(ID, &format!("fixture get_namespace_data: {e}")));
                    if let Some((id, rnd)) = rows.into_iter().next() {
                        let raw = RawRnd::from(rnd);
                        let proof = raw.proof.clone().unwrap_or_default();
                        let root = sq.dah.row_root(id.row_index()).unwrap();
                        let leaves: Vec<Vec<u8>> = raw.shares.iter().map(|s| s.data.clone()).collect();
                        let f = fx(d, format!("sq{si}-{label}-row{}", id.row_index()), Cx::NmtProof { root, leaves, ns }, Frame::Plain, proof.encode_to_vec(), true);
                        let pd = PROOF_DIMS_FULL;
                        let g: TypedGen = Arc::new(move |ord| {
                            let (desc, p) = proof_variant(&proof, &digits(ord, &pd));
                            (desc, p.encode_to_vec())
                        });
                        out.push(with_typed(f, product(&pd), g));
                    }
                }
            }
        }
        D::MerkleProof | D::RowProof | D::ShareProof => {
            let ks: Vec<usize> = if t { vec![1, 2, 4, 8] } else { vec![2, 4] };
            for k in ks {
                let sq = proofs::build_square(k, env.seed).unwrap_or_else(|e| machinery_error(ID, &e));
                match d {
                    D::MerkleProof => {
                        for i in [0, sq.dah_leaves.len() - 1] {
                            let raw = proofs::raw_merkle_proof(&sq.dah_leaves, i);
                            out.push(fx(d, format!("k{k}-leaf{i}"), Cx::Merkle { leaf: sq.dah_leaves[i].clone(), root: sq.data_root }, Frame::Plain, raw.encode_to_vec(), true));
                        }
                    }
                    D::RowProof => {
                        let mut spans = vec![(0usize, 0usize), (0, k.min(2) - 1 + (k > 1) as usize), (k - 1, 2 * k - 1)];
                        spans.sort();
                        spans.dedup();
                        for (a, b) in spans {
                            if a > b || b >= 2 * k {
                                continue;
                            }
                            let raw = proofs::raw_row_proof(&sq.dah_leaves, a, b);
                            let f = fx(d, format!("k{k}-rows{a}-{b}"), Cx::Root { root: sq.data_root }, Frame::Plain, raw.encode_to_vec(), true);
                            let (n, g) = row_proof_typed(raw);
                            out.push(with_typed(f, n, g));
                        }
                    }
                    _ => {
                        for (ns, s, e) in sq.runs() {
                            if ns[0] != 0 || (e - s) > 3 * k {
                                continue;
                            }
                            let raw = honest_share_proof(&sq, &ns, s, e);
                            let f = fx(d, format!("k{k}-cells{s}-{e}"), Cx::Root { root: sq.data_root }, Frame::Plain, raw.encode_to_vec(), true);
                            let (n, g) = share_proof_typed(raw);
                            out.push(with_typed(f, n, g));
                        }
                    }
                }
            }
        }
        _ => out = crate::c16_gen2::fixtures(env, d),
    }
    out.sort_by_key(|f| f.honest.len());
    for f in &out {
        check_proto(f);
    }
    // names must be unique (replay looks fixtures up by name)
    let mut names: Vec<&String> = out.iter().map(|f| &f.name).collect();
    names.sort();
    if names.windows(2).any(|w| w[0] == w[1]) {
        machinery_error(ID, &format!("duplicate fixture names for decoder {}", d.name()));
    }
    out
}

fn honest_share_proof(sq: &proofs::Square, ns: &[u8; 29], s: usize, e: usize) -> RawShareProof {
    let k = sq.k;
    let (r0, r1) = (s / k, (e - 1) / k);
    let mut data = vec![];
    let mut share_proofs = vec![];
    for r in r0..=r1 {
        let cs = if r == r0 { s % k } else { 0 };
        let ce = if r == r1 { (e - 1) % k + 1 } else { k };
        let sib = proofs::nmt_range_proof(&sq.row_leaves(r), cs, ce);
        for c in cs..ce {
            data.push(sq.cell(r, c).clone());
        }
        share_proofs.push(proofs::raw_nmt_proof(cs, ce, &sib));
    }
    RawShareProof { data, share_proofs, namespace_id: ns[1..].to_vec(), namespace_version: ns[0] as u32, row_proof: Some(proofs::raw_row_proof(&sq.dah_leaves, r0, r1)) }
}

const U32S: [u32; 7] = [0, 1, 65535, 65536, i32::MAX as u32, 1 << 31, u32::MAX];
const I64S: [i64; 9] = [0, 1, i32::MAX as i64, 1 << 31, u32::MAX as i64, i64::MAX, i64::MIN, -1, i32::MIN as i64];

fn row_proof_typed(h: RawRowProof) -> (usize, TypedGen) {
    // start_row(7) x end_row(7) x proofs count(7) x row_roots count(7), then total x index of proof 0
    let dims = [7usize, 7, 7, 7];
    let n_a = product(&dims);
    let n_b = 81;
    let g: TypedGen = Arc::new(move |ord| {
        let mut p = h.clone();
        if ord < n_a {
            let d = digits(ord, &dims);
            p.start_row = U32S[d[0]];
            p.end_row = U32S[d[1]];
            if d[2] > 0 {
                p.proofs = cycle(&h.proofs, RawMerkleProof::default(), LIST_LENS[d[2] - 1]);
            }
            if d[3] > 0 {
                p.row_roots = cycle(&h.row_roots, parity_node(), LIST_LENS[d[3] - 1]);
            }
            return (format!("row-proof[start={} end={} proofs#{} roots#{}]", p.start_row, p.end_row, d[2], d[3]), p.encode_to_vec());
        }
        let k = ord - n_a;
        if let Some(m) = p.proofs.first_mut() {
            m.total = I64S[k / 9];
            m.index = I64S[k % 9];
        }
        (format!("row-proof[proof0 total#{} index#{}]", k / 9, k % 9), p.encode_to_vec())
    });
    (n_a + n_b, g)
}

fn share_proof_typed(h: RawShareProof) -> (usize, TypedGen) {
    // every share proof's (start, end) from the i32 alphabet (all proofs alike) x data count x namespace version
    const I32E: [i32; 7] = [0, 1, 2, i32::MAX, i32::MIN, -1, 65536];
    let hn = h.data.len();
    let counts: Vec<usize> = vec![hn, 0, 1, hn + 1, 63, 64, 65, 200];
    let dims = [8usize, 8, counts.len(), 4, 3];
    let n = product(&dims);
    let g: TypedGen = Arc::new(move |ord| {
        let d = digits(ord, &dims);
        let mut p = h.clone();
        for sp in p.share_proofs.iter_mut() {
            if d[0] > 0 {
                sp.start = I32E[d[0] - 1];
            }
            if d[1] > 0 {
                sp.end = I32E[d[1] - 1];
            }
        }
        p.data = cycle(&h.data, vec![0u8; 512], counts[d[2]]);
        p.namespace_version = [h.namespace_version, 1, 256, u32::MAX][d[3]];
        match d[4] {
            0 => {}
            1 => p.share_proofs = cycle(&h.share_proofs, RawNmtProof::default(), h.share_proofs.len() + 1),
            _ => p.row_proof = None,
        }
        (format!("share-proof[start#{} end#{} data={} ns_version={} form#{}]", d[0], d[1], counts[d[2]], p.namespace_version, d[4]), p.encode_to_vec())
    });
    (n, g)
}

// re-exports for c16_gen2
pub(crate) fn mk_fx(d: D, name: String, cx: Cx, frame: Frame, honest: Vec<u8>, honest_ok: bool) -> Fx {
    fx(d, name, cx, frame, honest, honest_ok)
}
pub(crate) fn mk_typed(f: Fx, n: usize, g: TypedGen) -> Fx {
    with_typed(f, n, g)
}
pub(crate) fn raw_sample_of(env: &Env, sq: usize, r: usize, c: usize, ax: AxisType) -> RawSample {
    raw_sample(env, sq, r, c, ax)
}
pub(crate) fn row_raws_of(env: &Env, sq: usize, i: usize) -> (RawRow, RawRow) {
    row_raws(env, sq, i)
}
pub(crate) fn rnd_namespaces_of(sq: &sqs::Sq) -> Vec<(sqs::Ns, &'static str)> {
    rnd_namespaces(sq)
}
pub(crate) fn namespace_of(b: &sqs::Ns) -> Namespace {
    ns_of(b)
}
pub(crate) fn cycle_of<T: Clone>(items: &[T], fallback: T, n: usize) -> Vec<T> {
    cycle(items, fallback, n)
}
pub(crate) fn product_of(dims: &[usize]) -> usize {
    product(dims)
}

