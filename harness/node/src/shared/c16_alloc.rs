//! C16: counting global allocator of the check binary.
//!
//! * per thread: bytes currently live and the peak since the last `case_begin` (so every
//!   decoder case gets its own allocation high-water mark; memory freed by the case that was
//!   allocated before it is ignored by saturating arithmetic);
//! * a per-thread "current case" slot (decoder number, fixture number, pointer to the input
//!   bytes).  When the system allocator refuses a request (the child process runs under
//!   `RLIMIT_AS`), the slot is dumped to the file descriptor given by `set_fail_fd` *before*
//!   the standard library aborts the process, so the parent can attribute the abort to one
//!   decoder and one input (`alloc-abort:<decoder>`).
//!
//! Nothing here allocates or formats on the failure path.
#![allow(dead_code)]

use std::alloc::{GlobalAlloc, Layout, System};
use std::cell::Cell;
use std::sync::atomic::{AtomicI32, Ordering};

thread_local! {
    static LIVE: Cell<usize> = const { Cell::new(0) };
    static PEAK: Cell<usize> = const { Cell::new(0) };
    static BIGGEST: Cell<usize> = const { Cell::new(0) };
    static CUR_DEC: Cell<usize> = const { Cell::new(usize::MAX) };
    static CUR_FIX: Cell<usize> = const { Cell::new(0) };
    static CUR_PTR: Cell<*const u8> = const { Cell::new(std::ptr::null()) };
    static CUR_LEN: Cell<usize> = const { Cell::new(0) };
}

static FAIL_FD: AtomicI32 = AtomicI32::new(-1);

/// `HeaderCodec::read_response` asks for a zeroed 10 MiB buffer per call; obtaining and
/// returning such a block from the kernel costs ~1.5 ms under load (more than the decoding
/// itself).  One such block per thread is recycled instead: it is handed out by
/// `alloc_zeroed`, and when it comes back the prefix a case can have written (the input
/// length, the reader never writes more) is cleared again.  Every 256th recycle the whole
/// block is checked to be zero (a violation of the assumption stops the run as a machinery
/// error instead of corrupting later cases).
pub const POOLED_SIZE: usize = 10 * 1024 * 1024;
thread_local! {
    static POOLED: Cell<*mut u8> = const { Cell::new(std::ptr::null_mut()) };
    static OUT: Cell<*mut u8> = const { Cell::new(std::ptr::null_mut()) };
    static DIRTY: Cell<usize> = const { Cell::new(0) };
    static RECYCLES: Cell<u64> = const { Cell::new(0) };
}

pub fn set_fail_fd(fd: i32) {
    FAIL_FD.store(fd, Ordering::SeqCst);
}

/// Marks the start of a case on this thread.  `input` must stay alive until `case_end`.
pub fn case_begin(decoder: usize, fixture: usize, input: &[u8]) {
    CUR_DEC.with(|c| c.set(decoder));
    CUR_FIX.with(|c| c.set(fixture));
    CUR_PTR.with(|c| c.set(input.as_ptr()));
    CUR_LEN.with(|c| c.set(input.len()));
    LIVE.with(|c| c.set(0));
    PEAK.with(|c| c.set(0));
    BIGGEST.with(|c| c.set(0));
    DIRTY.with(|c| c.set(input.len().saturating_add(4096).min(POOLED_SIZE)));
}

/// (peak live bytes, largest single request) of the case that just ran on this thread.
pub fn case_end() -> (usize, usize) {
    CUR_DEC.with(|c| c.set(usize::MAX));
    CUR_PTR.with(|c| c.set(std::ptr::null()));
    CUR_LEN.with(|c| c.set(0));
    (PEAK.with(|c| c.get()), BIGGEST.with(|c| c.get()))
}

#[inline]
fn on_alloc(n: usize) {
    let live = LIVE.with(|c| {
        let v = c.get().saturating_add(n);
        c.set(v);
        v
    });
    PEAK.with(|c| {
        if live > c.get() {
            c.set(live)
        }
    });
    BIGGEST.with(|c| {
        if n > c.get() {
            c.set(n)
        }
    });
}

#[inline]
fn on_free(n: usize) {
    LIVE.with(|c| c.set(c.get().saturating_sub(n)));
}

fn put(fd: i32, b: &[u8]) {
    let mut off = 0;
    while off < b.len() {
        let r = unsafe { libc::write(fd, b[off..].as_ptr() as *const _, b.len() - off) };
        if r <= 0 {
            return;
        }
        off += r as usize;
    }
}

fn put_dec(fd: i32, mut v: usize) {
    let mut buf = [0u8; 24];
    let mut i = buf.len();
    loop {
        i -= 1;
        buf[i] = b'0' + (v % 10) as u8;
        v /= 10;
        if v == 0 {
            break;
        }
    }
    put(fd, &buf[i..]);
}

#[cold]
fn on_refused(size: usize) {
    let fd = FAIL_FD.load(Ordering::SeqCst);
    if fd < 0 {
        return;
    }
    let dec = CUR_DEC.with(|c| c.get());
    if dec == usize::MAX {
        put(fd, b"ALLOC-REFUSED outside-case size=");
        put_dec(fd, size);
        put(fd, b"\n");
        return;
    }
    // one line: ALLOC-REFUSED <decoder> <fixture> <size> <hex of the input>
    put(fd, b"ALLOC-REFUSED ");
    put_dec(fd, dec);
    put(fd, b" ");
    put_dec(fd, CUR_FIX.with(|c| c.get()));
    put(fd, b" ");
    put_dec(fd, size);
    put(fd, b" ");
    let p = CUR_PTR.with(|c| c.get());
    let n = CUR_LEN.with(|c| c.get());
    if !p.is_null() {
        let data = unsafe { std::slice::from_raw_parts(p, n) };
        const HEX: &[u8; 16] = b"0123456789abcdef";
        let mut buf = [0u8; 4096];
        for chunk in data.chunks(2048) {
            for (i, b) in chunk.iter().enumerate() {
                buf[2 * i] = HEX[(b >> 4) as usize];
                buf[2 * i + 1] = HEX[(b & 15) as usize];
            }
            put(fd, &buf[..2 * chunk.len()]);
        }
    }
    put(fd, b"\n");
}

pub struct CountingAlloc;

unsafe impl GlobalAlloc for CountingAlloc {
    unsafe fn alloc(&self, l: Layout) -> *mut u8 {
        let p = unsafe { System.alloc(l) };
        if p.is_null() {
            on_refused(l.size());
        } else {
            on_alloc(l.size());
        }
        p
    }
    unsafe fn alloc_zeroed(&self, l: Layout) -> *mut u8 {
        if l.size() == POOLED_SIZE && l.align() == 1 {
            let pooled = POOLED.with(|c| c.replace(std::ptr::null_mut()));
            if !pooled.is_null() {
                OUT.with(|c| c.set(pooled));
                on_alloc(l.size());
                return pooled;
            }
            let p = unsafe { System.alloc_zeroed(l) };
            if p.is_null() {
                on_refused(l.size());
            } else {
                if OUT.with(|c| c.get()).is_null() {
                    OUT.with(|c| c.set(p));
                }
                on_alloc(l.size());
            }
            return p;
        }
        let p = unsafe { System.alloc_zeroed(l) };
        if p.is_null() {
            on_refused(l.size());
        } else {
            on_alloc(l.size());
        }
        p
    }
    unsafe fn dealloc(&self, p: *mut u8, l: Layout) {
        on_free(l.size());
        if l.size() == POOLED_SIZE && l.align() == 1 && OUT.with(|c| c.get()) == p {
            OUT.with(|c| c.set(std::ptr::null_mut()));
            if POOLED.with(|c| c.get()).is_null() {
                let dirty = DIRTY.with(|c| c.get()).min(POOLED_SIZE);
                unsafe { std::ptr::write_bytes(p, 0, dirty) };
                let n = RECYCLES.with(|c| {
                    c.set(c.get() + 1);
                    c.get()
                });
                if n % 256 == 1 {
                    let all = unsafe { std::slice::from_raw_parts(p, POOLED_SIZE) };
                    if all.iter().any(|b| *b != 0) {
                        let msg = b"MACHINERY-ERROR property=C16 recycled 10 MiB read buffer was written beyond the input length\n";
                        unsafe { libc::write(2, msg.as_ptr() as *const _, msg.len()) };
                        unsafe { libc::_exit(2) };
                    }
                }
                POOLED.with(|c| c.set(p));
                return;
            }
        }
        unsafe { System.dealloc(p, l) }
    }
    unsafe fn realloc(&self, p: *mut u8, l: Layout, new_size: usize) -> *mut u8 {
        if OUT.with(|c| c.get()) == p {
            // the block leaves the recycling regime
            OUT.with(|c| c.set(std::ptr::null_mut()));
        }
        let np = unsafe { System.realloc(p, l, new_size) };
        if np.is_null() {
            on_refused(new_size);
        } else {
            on_free(l.size());
            on_alloc(new_size);
        }
        np
    }
}
