//! Deterministic data squares for the shwap family (C09, C10).
//!
//! The original data square (ODS) is written share by share by this file (namespaces in
//! non-decreasing row-major order, payload bytes from `Fill(seed)`), the extension is
//! computed by the real `ExtendedDataSquare::from_ods`.  The oracles only ever use the raw
//! bytes kept here (`ods`, `cells`), never a decoder of the code under test.
#![allow(dead_code)]

use celestia_types::{AppVersion, DataAvailabilityHeader, ExtendedDataSquare};
use lv_core::Fill;

pub const SHARE: usize = 512;
pub const NS: usize = 29;

pub type Ns = [u8; NS];

pub const fn ns_v0(id: u64) -> Ns {
    let mut b = [0u8; NS];
    let be = id.to_be_bytes();
    let mut i = 0;
    while i < 8 {
        b[NS - 8 + i] = be[i];
        i += 1;
    }
    b
}

pub const TX_NS: Ns = ns_v0(1);
pub const TAIL_PADDING: Ns = {
    let mut b = [0xffu8; NS];
    b[NS - 1] = 0xfe;
    b
};
pub const PARITY: Ns = [0xffu8; NS];

/// Namespace of user blob group `g` (g >= 1); `user_ns(g) + 1` is never used, so it is an
/// "absent but inside the range" namespace.
pub fn user_ns(g: u64) -> Ns {
    ns_v0(0x100 + 2 * g)
}
pub fn absent_ns_after(g: u64) -> Ns {
    ns_v0(0x100 + 2 * g + 1)
}

#[derive(Clone, Copy, PartialEq, Eq, Debug)]
pub enum Layout {
    /// share version 0 only
    Plain,
    /// one blob of share version 1 (admitted only from app version 3 on)
    WithV1,
    /// the empty block: a single tail-padding share (ODS width 1 only)
    Empty,
}

impl Layout {
    pub fn name(self) -> &'static str {
        match self {
            Layout::Plain => "plain",
            Layout::WithV1 => "with-share-v1",
            Layout::Empty => "empty-block",
        }
    }
}

pub struct Sq {
    /// ODS width
    pub w: usize,
    pub layout: Layout,
    pub variant: u64,
    /// the w*w original shares, row-major, exactly as written by `build_ods`
    pub ods: Vec<Vec<u8>>,
    pub eds: ExtendedDataSquare,
    pub dah: DataAvailabilityHeader,
    /// 2w x 2w raw share bytes of the extended square
    pub cells: Vec<Vec<Vec<u8>>>,
    /// namespace of each ODS share, row-major
    pub ods_ns: Vec<Ns>,
}

impl Sq {
    /// `ods` concatenated: the honest shrex EDS payload.
    pub fn payload(&self) -> Vec<u8> {
        self.ods.concat()
    }
    /// Oracle for "the app version admits the square": share version 1 needs app >= 3; the
    /// widths used here (<= 32) are below every version's size bound.
    pub fn admitted_by(&self, app: AppVersion) -> bool {
        self.layout != Layout::WithV1 || app.as_u64() >= 3
    }
    pub fn eds_width(&self) -> usize {
        2 * self.w
    }
    /// Namespace the NMT files cell (r, c) under.
    pub fn cell_ns(&self, r: usize, c: usize) -> Ns {
        if r < self.w && c < self.w {
            self.ods_ns[r * self.w + c]
        } else {
            PARITY
        }
    }
}

/// Writes the ODS: share 0 is a transaction share, the last max(1, w/2) shares are tail
/// padding (both only when w >= 2), everything in between are user blobs of three shares
/// each (so namespaces repeat and span row boundaries).
pub fn build_ods(seed: u64, w: usize, layout: Layout, variant: u64) -> (Vec<Vec<u8>>, Vec<Ns>) {
    let n = w * w;
    let mut fill = Fill::new(seed, 0x0909_0000 ^ ((w as u64) << 16) ^ (variant << 4) ^ layout as u64);
    let mut ods = Vec::with_capacity(n);
    let mut nss = Vec::with_capacity(n);
    let tail = if w >= 2 { (w / 2).max(1) } else { 0 };
    for i in 0..n {
        let mut s = vec![0u8; SHARE];
        let ns: Ns;
        if layout == Layout::Empty || (w >= 2 && i >= n - tail) {
            ns = TAIL_PADDING;
            s[NS] = 0x01;
        } else if w >= 2 && i == 0 {
            ns = TX_NS;
            s[NS] = 0x01;
            s[NS + 1..].copy_from_slice(&fill.bytes(SHARE - NS - 1));
        } else {
            let g = (i as u64 + 2) / 3; // i=1,2,3 -> 1; 4,5,6 -> 2 ...
            let first = i == 0 || (i as u64 + 2) % 3 == 0;
            let v1 = layout == Layout::WithV1 && g == (if w == 1 { 0 } else { 1 });
            ns = user_ns(g.max(1));
            s[NS] = ((v1 as u8) << 1) | first as u8;
            s[NS + 1..].copy_from_slice(&fill.bytes(SHARE - NS - 1));
        }
        s[..NS].copy_from_slice(&ns);
        ods.push(s);
        nss.push(ns);
    }
    (ods, nss)
}

pub fn build(seed: u64, w: usize, layout: Layout, variant: u64) -> Result<Sq, String> {
    let (ods, ods_ns) = build_ods(seed, w, layout, variant);
    let eds = ExtendedDataSquare::from_ods(ods.clone(), AppVersion::latest())
        .map_err(|e| format!("fixture square w={w} {layout:?}: from_ods failed: {e}"))?;
    let dah = DataAvailabilityHeader::from_eds(&eds);
    let ew = 2 * w;
    let mut cells = vec![];
    for r in 0..ew {
        let mut row = vec![];
        for c in 0..ew {
            let sh = eds
                .share(r as u16, c as u16)
                .map_err(|e| format!("fixture square: share({r},{c}): {e}"))?;
            row.push(sh.data().to_vec());
        }
        cells.push(row);
    }
    // the original quadrant must be what we wrote
    for r in 0..w {
        for c in 0..w {
            if cells[r][c] != ods[r * w + c] {
                return Err(format!("fixture square: ODS cell ({r},{c}) differs from the written share"));
            }
        }
    }
    Ok(Sq {
        w,
        layout,
        variant,
        ods,
        eds,
        dah,
        cells,
        ods_ns,
    })
}

/// Independent recomputation of the DAH roots with lv-core's NMT (machinery self-check of
/// the fixture: a disagreement means the oracle's picture of the square is wrong).
pub fn check_dah_independently(sq: &Sq) -> Result<(), String> {
    use lv_core::oracle::eds_axis_root;
    let ew = sq.eds_width();
    for i in 0..ew {
        let row: Vec<Vec<u8>> = (0..ew).map(|c| sq.cells[i][c].clone()).collect();
        let col: Vec<Vec<u8>> = (0..ew).map(|r| sq.cells[r][i].clone()).collect();
        let rr = eds_axis_root(&row, |c| i < sq.w && c < sq.w).to_bytes();
        let cr = eds_axis_root(&col, |r| i < sq.w && r < sq.w).to_bytes();
        let want_r = sq.dah.row_root(i as u16).ok_or("missing row root")?;
        let want_c = sq.dah.column_root(i as u16).ok_or("missing column root")?;
        let mut wr = vec![];
        wr.extend_from_slice(&want_r.min_namespace().0);
        wr.extend_from_slice(&want_r.max_namespace().0);
        wr.extend_from_slice(&want_r.hash());
        let mut wc = vec![];
        wc.extend_from_slice(&want_c.min_namespace().0);
        wc.extend_from_slice(&want_c.max_namespace().0);
        wc.extend_from_slice(&want_c.hash());
        if rr != wr {
            return Err(format!("row root {i} of fixture square w={} differs from the independent NMT", sq.w));
        }
        if cr != wc {
            return Err(format!("column root {i} of fixture square w={} differs from the independent NMT", sq.w));
        }
    }
    Ok(())
}

pub fn app_versions() -> Vec<AppVersion> {
    (1..=16u64).filter_map(AppVersion::from_u64).collect()
}
