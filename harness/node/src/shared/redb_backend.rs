//! Engine E4 support: a cloneable, logging, fault-materialising `redb::StorageBackend`.
//!
//! `LoggingBackend` keeps the byte image and (optionally) a log of every mutating call redb
//! makes (`write(off,data)`, `set_len(n)`, `sync_data(eventual)`).  The harness keeps a
//! handle (`clone()` shares the state) while `redb::Database` owns the other one.
//! `materialise` rebuilds the disk image that a crash would leave behind for a chosen
//! crash point (log prefix) and a chosen subset of the not-yet-durable records.
#![allow(dead_code)]

use std::io;
use std::sync::{Arc, Mutex};

#[derive(Clone, Debug)]
pub enum Rec {
    Write { off: u64, data: Arc<[u8]> },
    SetLen(u64),
    Sync { eventual: bool },
}

impl Rec {
    pub fn is_sync(&self) -> bool {
        matches!(self, Rec::Sync { .. })
    }
    pub fn shape(&self) -> (u8, u64, u64) {
        match self {
            Rec::Write { off, data } => (0, *off, data.len() as u64),
            Rec::SetLen(n) => (1, *n, 0),
            Rec::Sync { eventual } => (2, *eventual as u64, 0),
        }
    }
    pub fn describe(&self) -> String {
        match self {
            Rec::Write { off, data } => format!("write(off={off},len={})", data.len()),
            Rec::SetLen(n) => format!("set_len({n})"),
            Rec::Sync { eventual } => format!("sync_data(eventual={eventual})"),
        }
    }
}

#[derive(Debug, Default)]
struct State {
    image: Vec<u8>,
    log: Vec<Rec>,
    logging: bool,
    reads: u64,
}

/// Shared-state backend: clones observe (and mutate) the same image and log.
#[derive(Clone, Debug, Default)]
pub struct LoggingBackend(Arc<Mutex<State>>);

impl LoggingBackend {
    pub fn new() -> Self {
        Self::default()
    }
    /// A fresh backend (own state) holding `image`, logging switched on or off.
    pub fn from_image(image: Vec<u8>, logging: bool) -> Self {
        LoggingBackend(Arc::new(Mutex::new(State {
            image,
            log: vec![],
            logging,
            reads: 0,
        })))
    }
    pub fn with_logging(self, on: bool) -> Self {
        self.0.lock().unwrap().logging = on;
        self
    }
    pub fn image(&self) -> Vec<u8> {
        self.0.lock().unwrap().image.clone()
    }
    pub fn image_len(&self) -> usize {
        self.0.lock().unwrap().image.len()
    }
    pub fn image_hash(&self) -> u64 {
        lv_core::fnv64(&self.0.lock().unwrap().image)
    }
    pub fn log_len(&self) -> usize {
        self.0.lock().unwrap().log.len()
    }
    pub fn log(&self) -> Vec<Rec> {
        self.0.lock().unwrap().log.clone()
    }
}

/// Crash images are multi-megabyte buffers cloned thousands of times; by default glibc serves
/// each one with a fresh `mmap` (page faults on every byte).  Keep them on the heap instead.
pub fn tune_malloc() {
    unsafe {
        libc::mallopt(libc::M_MMAP_THRESHOLD, 512 << 20);
        libc::mallopt(libc::M_TRIM_THRESHOLD, 1 << 30);
        libc::mallopt(libc::M_TOP_PAD, 32 << 20);
    }
}

fn oob() -> io::Error {
    io::Error::new(io::ErrorKind::InvalidInput, "index out of range")
}

impl redb::StorageBackend for LoggingBackend {
    fn len(&self) -> Result<u64, io::Error> {
        Ok(self.0.lock().unwrap().image.len() as u64)
    }

    fn read(&self, offset: u64, len: usize) -> Result<Vec<u8>, io::Error> {
        let mut g = self.0.lock().unwrap();
        g.reads += 1;
        let off = usize::try_from(offset).map_err(|_| oob())?;
        if off.checked_add(len).is_some_and(|e| e <= g.image.len()) {
            Ok(g.image[off..off + len].to_vec())
        } else {
            Err(oob())
        }
    }

    fn set_len(&self, len: u64) -> Result<(), io::Error> {
        let mut g = self.0.lock().unwrap();
        let n = usize::try_from(len).map_err(|_| oob())?;
        g.image.resize(n, 0);
        if g.logging {
            g.log.push(Rec::SetLen(len));
        }
        Ok(())
    }

    fn sync_data(&self, eventual: bool) -> Result<(), io::Error> {
        let mut g = self.0.lock().unwrap();
        if g.logging {
            g.log.push(Rec::Sync { eventual });
        }
        Ok(())
    }

    fn write(&self, offset: u64, data: &[u8]) -> Result<(), io::Error> {
        let mut g = self.0.lock().unwrap();
        let off = usize::try_from(offset).map_err(|_| oob())?;
        if off.checked_add(data.len()).is_some_and(|e| e <= g.image.len()) {
            g.image[off..off + data.len()].copy_from_slice(data);
            if g.logging {
                g.log.push(Rec::Write {
                    off: offset,
                    data: data.into(),
                });
            }
            Ok(())
        } else {
            Err(oob())
        }
    }
}

/// Applies one record to an image the way a file would take it: a write beyond the current
/// end extends the file (zero filled), `set_len` truncates or zero-extends.
pub fn apply(image: &mut Vec<u8>, r: &Rec) {
    match r {
        Rec::Write { off, data } => {
            let off = *off as usize;
            let end = off + data.len();
            if image.len() < end {
                image.resize(end, 0);
            }
            image[off..end].copy_from_slice(data);
        }
        Rec::SetLen(n) => image.resize(*n as usize, 0),
        Rec::Sync { .. } => {}
    }
}

/// The crash structure of a log prefix `[0, p)`.
#[derive(Clone, Debug)]
pub struct Window {
    /// everything in `[0, durable_end)` is on disk for certain (records up to and including
    /// the last completed non-eventual `sync_data` of the prefix)
    pub durable_end: usize,
    /// end of the prefix (the crash point `p`)
    pub end: usize,
    /// log indices (all `< p`, `>= durable_end`) of the droppable records in issue order:
    /// the writes, and the `set_len`s too when `set_len_droppable`
    pub items: Vec<usize>,
    /// for each item, the number of `sync_data(eventual=true)` barriers between `durable_end`
    /// and the item: an item of segment k may only survive if every item of segments < k did
    pub segment: Vec<u32>,
}

/// `set_len_droppable = false` (the default of the checks): a `set_len` takes effect at once
/// and durably, only whole writes can be lost — the quantifier of C22.
pub fn window(log: &[Rec], p: usize, set_len_droppable: bool) -> Window {
    let mut durable_end = 0;
    for (i, r) in log[..p].iter().enumerate() {
        if matches!(r, Rec::Sync { eventual: false }) {
            durable_end = i + 1;
        }
    }
    let mut items = vec![];
    let mut segment = vec![];
    let mut seg = 0u32;
    for (i, r) in log[..p].iter().enumerate().skip(durable_end) {
        match r {
            Rec::Sync { .. } => seg += 1,
            Rec::SetLen(_) if !set_len_droppable => {}
            _ => {
                items.push(i);
                segment.push(seg);
            }
        }
    }
    Window {
        durable_end,
        end: p,
        items,
        segment,
    }
}

impl Window {
    /// Whether the survivor set `mask` (bit i = item i survives) respects the write barriers.
    pub fn respects_barriers(&self, mask: u64) -> bool {
        // find the highest segment with a survivor; all items of lower segments must survive
        let mut top: Option<u32> = None;
        for (i, s) in self.segment.iter().enumerate() {
            if mask >> i & 1 == 1 {
                top = Some(top.map_or(*s, |t: u32| t.max(*s)));
            }
        }
        let Some(top) = top else { return true };
        self.segment
            .iter()
            .enumerate()
            .all(|(i, s)| *s >= top || mask >> i & 1 == 1)
    }

    /// The survivor masks to explore: all subsets when the window has at most `cap` items,
    /// otherwise (all prefixes, all single drops, all single survivors, all pairs).
    /// Returns (masks, exhaustive).
    pub fn masks(&self, cap: usize) -> (Vec<u64>, bool) {
        let n = self.items.len();
        assert!(n < 64);
        let mut out: Vec<u64>;
        let exhaustive = n <= cap;
        if exhaustive {
            out = (0..(1u64 << n)).collect();
        } else {
            let full = (1u64 << n) - 1;
            out = vec![];
            for k in 0..=n {
                out.push((1u64 << k) - 1); // prefixes
            }
            for i in 0..n {
                out.push(full & !(1 << i)); // single drops
                out.push(1 << i); // single survivors
                for j in i + 1..n {
                    out.push(1 << i | 1 << j); // surviving pairs
                    out.push(full & !(1 << i | 1 << j)); // dropped pairs
                }
            }
            out.sort();
            out.dedup();
        }
        out.retain(|m| self.respects_barriers(*m));
        // simplest first: fewest dropped records first is "closest to no fault"
        (out, exhaustive)
    }
}

/// The image a crash leaves: `durable` (base + the records before `w.durable_end`) + the
/// surviving subset of the window, in issue order; records of the window that are not
/// droppable items (`set_len` unless droppable) always apply.
pub fn materialise(durable: &[u8], log: &[Rec], w: &Window, mask: u64) -> Vec<u8> {
    let mut img = durable.to_vec();
    let mut item = 0usize;
    for idx in w.durable_end..w.end {
        if item < w.items.len() && w.items[item] == idx {
            if mask >> item & 1 == 1 {
                apply(&mut img, &log[idx]);
            }
            item += 1;
        } else {
            apply(&mut img, &log[idx]);
        }
    }
    img
}

/// base + every record before `w.durable_end`
pub fn durable_image(base: &[u8], log: &[Rec], w: &Window) -> Vec<u8> {
    let mut img = base.to_vec();
    for r in &log[..w.durable_end] {
        apply(&mut img, r);
    }
    img
}
