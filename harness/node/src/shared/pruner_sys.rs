//! Shared driver of the pruner family (C35, C36).
//!
//! * fixtures: header chains with explicit times, unchecked `VerifiedExtendedHeaders`;
//! * `LogStore` / `LogBlockstore`: the public `Store` / `Blockstore` traits implemented
//!   around the real `InMemoryStore` / `InMemoryBlockstore`, forwarding every call and
//!   recording the property-relevant ones in one shared, totally ordered log;
//! * `run_pruner`: one complete execution of the real `Pruner` worker (tokio current-thread
//!   runtime, paused clock) for a configuration and a grant/refuse choice sequence, with the
//!   oracle of C35 evaluated over the log.

use async_trait::async_trait;
use blockstore::Blockstore;
use celestia_types::ExtendedHeader;
use celestia_types::hash::Hash;
use celestia_types::test_utils::ExtendedHeaderGenerator;
use cid::CidGeneric;
use lumina_node::block_ranges::BlockRanges;
use lumina_node::blockstore::InMemoryBlockstore;
use lumina_node::store::{InMemoryStore, SamplingMetadata, Store, StoreError, VerifiedExtendedHeaders};
use lumina_node::verif::daser::{VDaserCmd, VEvents, VMockDaser, VPruneReply};
use lumina_node::verif::pruner::start_pruner;
use lv_core::*;
use std::collections::{BTreeMap, BTreeSet};
use std::fmt::Display;
use std::future::Future;
use std::sync::{Arc, Mutex};
use std::time::Duration;
use tendermint::Time;

pub type Cid = cid::Cid;

pub fn block<F: Future>(f: F) -> F::Output {
    futures::executor::block_on(f)
}

/// Heights 1..=times.len(), header h carrying `times[h-1]` (empty data squares).
pub fn gen_chain(times: &[Time]) -> Vec<ExtendedHeader> {
    let mut g = ExtendedHeaderGenerator::new();
    let mut out = Vec::with_capacity(times.len());
    for t in times {
        g.set_time(*t, Duration::ZERO);
        out.push(g.next_empty());
    }
    out
}

pub fn unchecked(headers: Vec<ExtendedHeader>) -> VerifiedExtendedHeaders {
    // SAFETY (contract of the type): the headers come straight out of the repo's generator
    // as one adjacent chain; this only skips re-verifying the signatures per case.
    unsafe { VerifiedExtendedHeaders::new_unchecked(headers) }
}

// ---------------------------------------------------------------------------------------
// logging wrappers

#[derive(Clone, Debug, PartialEq, Eq)]
pub enum Ev {
    /// `get_stored_header_ranges` — first store call of every pruner iteration.
    IterStart,
    /// `Store::remove_height(h)` and whether the store accepted it.
    RemoveHeight(u64, bool),
    /// `Blockstore::remove(cid)` (cid bytes).
    BsRemove(Vec<u8>),
    /// Harness: answer given to `WantToPrune(h)`.
    Ask(u64, bool),
    UpdateHighest(u64),
    UpdateNumPrunable(u64),
}

pub type Log = Arc<Mutex<Vec<Ev>>>;

#[derive(Debug)]
pub struct LogStore {
    pub inner: InMemoryStore,
    pub log: Log,
}

#[async_trait]
impl Store for LogStore {
    async fn get_head(&self) -> Result<ExtendedHeader, StoreError> {
        self.inner.get_head().await
    }
    async fn get_by_hash(&self, hash: &Hash) -> Result<ExtendedHeader, StoreError> {
        self.inner.get_by_hash(hash).await
    }
    async fn get_by_height(&self, height: u64) -> Result<ExtendedHeader, StoreError> {
        self.inner.get_by_height(height).await
    }
    async fn wait_new_head(&self) -> u64 {
        self.inner.wait_new_head().await
    }
    async fn wait_height(&self, height: u64) -> Result<(), StoreError> {
        self.inner.wait_height(height).await
    }
    async fn head_height(&self) -> Result<u64, StoreError> {
        self.inner.head_height().await
    }
    async fn has(&self, hash: &Hash) -> bool {
        self.inner.has(hash).await
    }
    async fn has_at(&self, height: u64) -> bool {
        self.inner.has_at(height).await
    }
    async fn update_sampling_metadata(&self, height: u64, cids: Vec<Cid>) -> Result<(), StoreError> {
        self.inner.update_sampling_metadata(height, cids).await
    }
    async fn get_sampling_metadata(&self, height: u64) -> Result<Option<SamplingMetadata>, StoreError> {
        self.inner.get_sampling_metadata(height).await
    }
    async fn mark_as_sampled(&self, height: u64) -> Result<(), StoreError> {
        self.inner.mark_as_sampled(height).await
    }
    async fn insert<R>(&self, headers: R) -> Result<(), StoreError>
    where
        R: TryInto<VerifiedExtendedHeaders> + Send,
        <R as TryInto<VerifiedExtendedHeaders>>::Error: Display,
    {
        self.inner.insert(headers).await
    }
    async fn get_stored_header_ranges(&self) -> Result<BlockRanges, StoreError> {
        self.log.lock().unwrap().push(Ev::IterStart);
        self.inner.get_stored_header_ranges().await
    }
    async fn get_sampled_ranges(&self) -> Result<BlockRanges, StoreError> {
        self.inner.get_sampled_ranges().await
    }
    async fn get_pruned_ranges(&self) -> Result<BlockRanges, StoreError> {
        self.inner.get_pruned_ranges().await
    }
    async fn remove_height(&self, height: u64) -> Result<(), StoreError> {
        let r = self.inner.remove_height(height).await;
        self.log.lock().unwrap().push(Ev::RemoveHeight(height, r.is_ok()));
        r
    }
    async fn get_identity(&self) -> Result<libp2p_identity_alias::Keypair, StoreError> {
        self.inner.get_identity().await
    }
    async fn close(self) -> Result<(), StoreError> {
        self.inner.close().await
    }
}

/// `Store::get_identity` names `libp2p::identity::Keypair`.
mod libp2p_identity_alias {
    pub use libp2p_identity::Keypair;
}

pub struct LogBlockstore {
    pub inner: InMemoryBlockstore,
    pub log: Log,
}

impl Blockstore for LogBlockstore {
    async fn get<const S: usize>(&self, cid: &CidGeneric<S>) -> blockstore::Result<Option<Vec<u8>>> {
        self.inner.get(cid).await
    }
    async fn put_keyed<const S: usize>(&self, cid: &CidGeneric<S>, data: &[u8]) -> blockstore::Result<()> {
        self.inner.put_keyed(cid, data).await
    }
    async fn remove<const S: usize>(&self, cid: &CidGeneric<S>) -> blockstore::Result<()> {
        self.log.lock().unwrap().push(Ev::BsRemove(cid.to_bytes()));
        self.inner.remove(cid).await
    }
    async fn has<const S: usize>(&self, cid: &CidGeneric<S>) -> blockstore::Result<bool> {
        self.inner.has(cid).await
    }
    async fn close(self) -> blockstore::Result<()> {
        self.inner.close().await
    }
}

// ---------------------------------------------------------------------------------------
// C35 configurations

pub const HOUR: u64 = 3600;
/// The two window sizes used (hours).  Every header age is >= 2 h away from both.
pub const SMALL_WINDOW_H: u64 = 10;
pub const LARGE_WINDOW_H: u64 = 20;

#[derive(Clone, Copy, Debug, PartialEq, Eq, serde::Serialize, serde::Deserialize)]
pub enum Order {
    /// pruning window (10 h) smaller than sampling window (20 h)
    PruningSmaller,
    /// both 10 h
    Equal,
    /// pruning window (20 h) larger than sampling window (10 h)
    PruningLarger,
}

impl Order {
    pub fn windows_h(self) -> (u64, u64) {
        // (pruning, sampling)
        match self {
            Order::PruningSmaller => (SMALL_WINDOW_H, LARGE_WINDOW_H),
            Order::Equal => (SMALL_WINDOW_H, SMALL_WINDOW_H),
            Order::PruningLarger => (LARGE_WINDOW_H, SMALL_WINDOW_H),
        }
    }
}

/// What the store holds for one height.
#[derive(Clone, Copy, Debug, PartialEq, Eq, serde::Serialize, serde::Deserialize)]
pub enum St {
    /// never synced
    Gap,
    /// synced and pruned earlier (in the store's pruned ranges)
    Pruned,
    /// stored, not sampled
    Unsampled,
    /// stored and marked as sampled
    Sampled,
}

#[derive(Clone, Debug, serde::Serialize, serde::Deserialize)]
pub struct Config {
    pub n: usize,
    pub order: Order,
    /// number of heights (from 1) older than both windows (age 25 h ..)
    pub old: usize,
    /// number of following heights with an age between the two windows (15 h ..)
    pub mid: usize,
    /// remaining heights are inside both windows (5 h ..)
    pub status: Vec<St>,
    /// 0: odd heights carry two CIDs (one present in the blockstore, one absent), heights
    /// divisible by 4 carry metadata with an empty CID list, others no metadata;
    /// 1: same with odd/even swapped (even heights carry CIDs, heights = 1 mod 4 empty list)
    pub meta_layout: u8,
    /// true: block_time = 1 ns (window cache refreshed on every iteration);
    /// false: block_time = 1 h (window cache computed once)
    pub refresh: bool,
}

impl Config {
    /// age of height h in seconds (strictly decreasing with height)
    pub fn age_secs(&self, h: u64) -> u64 {
        let i = h as usize - 1;
        let base_h = if i < self.old {
            25
        } else if i < self.old + self.mid {
            15
        } else {
            5
        };
        base_h * HOUR + (self.n as u64 - h) * 60
    }
    pub fn inside_pruning_window(&self, h: u64) -> bool {
        self.age_secs(h) < self.order.windows_h().0 * HOUR
    }
    pub fn inside_sampling_window(&self, h: u64) -> bool {
        self.age_secs(h) < self.order.windows_h().1 * HOUR
    }
    /// CIDs recorded in the sampling metadata of h: None = no metadata
    pub fn meta(&self, h: u64) -> Option<Vec<Cid>> {
        let hh = h + self.meta_layout as u64;
        if hh % 2 == 1 {
            Some(vec![test_cid(h, 0), test_cid(h, 1)])
        } else if hh % 4 == 0 {
            Some(vec![])
        } else {
            None
        }
    }
    pub fn key(&self) -> u64 {
        fnv64(serde_json::to_string(self).unwrap().as_bytes())
    }
}

const TEST_CODEC: u64 = 0x0D;

pub fn test_cid(h: u64, idx: u8) -> Cid {
    let mut b = [0u8; 9];
    b[..8].copy_from_slice(&h.to_le_bytes());
    b[8] = idx;
    let mh = multihash::Multihash::<64>::wrap(TEST_CODEC, &b).unwrap();
    CidGeneric::new_v1(TEST_CODEC, mh)
}

/// Headers for a (n, order-independent) age profile, generated once per profile.
pub struct Chains {
    /// (n, old, mid) -> headers
    map: BTreeMap<(usize, usize, usize), Arc<Vec<ExtendedHeader>>>,
}

impl Chains {
    pub fn build(n: usize, now: Time) -> Chains {
        let mut map = BTreeMap::new();
        for old in 0..=n {
            for mid in 0..=n - old {
                let cfg = Config { n, order: Order::Equal, old, mid, status: vec![], meta_layout: 0, refresh: true };
                let times: Vec<Time> = (1..=n as u64).map(|h| (now - Duration::from_secs(cfg.age_secs(h))).unwrap()).collect();
                let hs = gen_chain(&times);
                for (i, h) in hs.iter().enumerate() {
                    assert_eq!(h.height(), i as u64 + 1, "fixture: height");
                    assert_eq!(h.time(), times[i], "fixture: time");
                }
                map.insert((n, old, mid), Arc::new(hs));
            }
        }
        Chains { map }
    }
    pub fn get(&self, cfg: &Config) -> Arc<Vec<ExtendedHeader>> {
        self.map.get(&(cfg.n, cfg.old, cfg.mid)).expect("profile").clone()
    }
}

// ---------------------------------------------------------------------------------------
// one execution

#[derive(Default, Debug, Clone)]
pub struct RunStats {
    pub removed: u64,
    pub removed_outside_both: u64,
    pub removed_inside_sampling_window: u64,
    pub removed_with_cids: u64,
    pub asks: u64,
    pub refusals: u64,
    pub iterations: u64,
}

pub struct RunOut {
    pub exec: Exec,
    pub stats: RunStats,
    pub log: Vec<Ev>,
}

/// iterations the pruner may complete before the harness stops it
pub const ITERATIONS: usize = 3;
const MAX_STEPS: usize = 400;

pub fn run_pruner(cfg: &Config, headers: &[ExtendedHeader], prefix: &[u32], keep_labels: bool) -> RunOut {
    let rt = tokio::runtime::Builder::new_current_thread()
        .enable_time()
        .start_paused(true)
        .build()
        .expect("runtime");
    let r = guard(|| rt.block_on(run_async(cfg, headers, prefix, keep_labels)));
    match r {
        Ok(out) => out,
        Err(p) => {
            // a panic of the harness task itself (fixtures): machinery, reported as divergence
            let mut ch = Chooser::new(prefix, keep_labels);
            ch.diverged = Some(format!("harness panicked: {p}"));
            RunOut { exec: Exec::from_chooser(ch, "harness-panic", 0, vec![], 0), stats: RunStats::default(), log: vec![] }
        }
    }
}

async fn run_async(cfg: &Config, headers: &[ExtendedHeader], prefix: &[u32], keep_labels: bool) -> RunOut {
    let n = cfg.n as u64;
    let log: Log = Arc::new(Mutex::new(Vec::new()));

    // ---- build the store: every maximal run of synced heights in one insert
    let inner = InMemoryStore::new();
    let mut h = 1u64;
    while h <= n {
        if cfg.status[h as usize - 1] == St::Gap {
            h += 1;
            continue;
        }
        let start = h;
        while h <= n && cfg.status[h as usize - 1] != St::Gap {
            h += 1;
        }
        let run: Vec<ExtendedHeader> = headers[start as usize - 1..h as usize - 1].to_vec();
        inner.insert(unchecked(run)).await.expect("fixture: insert");
    }
    let bs_inner = InMemoryBlockstore::new();
    for h in 1..=n {
        match cfg.status[h as usize - 1] {
            St::Gap => {}
            St::Pruned => inner.remove_height(h).await.expect("fixture: remove"),
            st => {
                if st == St::Sampled {
                    inner.mark_as_sampled(h).await.expect("fixture: mark");
                }
                if let Some(cids) = cfg.meta(h) {
                    if let Some(first) = cids.first() {
                        // only the first CID is present in the blockstore
                        bs_inner.put_keyed(first, &h.to_le_bytes()).await.expect("fixture: put");
                    }
                    inner.update_sampling_metadata(h, cids).await.expect("fixture: meta");
                }
            }
        }
    }
    let store = Arc::new(LogStore { inner, log: log.clone() });
    let bs = Arc::new(LogBlockstore { inner: bs_inner, log: log.clone() });

    // ---- start the real pruner
    let events = VEvents::new();
    let mut sub = events.subscribe();
    let mut daser = VMockDaser::new();
    let (pw, sw) = cfg.order.windows_h();
    let block_time = if cfg.refresh { Duration::from_nanos(1) } else { Duration::from_secs(HOUR) };
    let pruner = start_pruner(
        &daser,
        store.clone(),
        bs.clone(),
        &events,
        block_time,
        Duration::from_secs(sw * HOUR),
        Duration::from_secs(pw * HOUR),
    );

    let mut ch = Chooser::new(prefix, keep_labels);
    let mut pending: Option<VPruneReply> = None;
    let mut class_hint = "completed";
    let iters = |log: &Log| log.lock().unwrap().iter().filter(|e| **e == Ev::IterStart).count();
    let mut steps = 0usize;
    'outer: loop {
        steps += 1;
        if steps > MAX_STEPS {
            class_hint = "horizon";
            break;
        }
        tokio::time::sleep(Duration::from_millis(1)).await;
        let before = log.lock().unwrap().len();
        let mut progressed = false;
        while let Some(cmd) = daser.try_next_cmd() {
            progressed = true;
            match cmd {
                VDaserCmd::WantToPrune { height, respond_to } => {
                    if iters(&log) > ITERATIONS {
                        pending = Some(respond_to);
                        break 'outer;
                    }
                    let c = ch.choose(2, || format!("WantToPrune({height}): 0=grant 1=refuse"));
                    log.lock().unwrap().push(Ev::Ask(height, c == 0));
                    respond_to.send(c == 0);
                }
                VDaserCmd::UpdateHighestPrunableHeight { value } => log.lock().unwrap().push(Ev::UpdateHighest(value)),
                VDaserCmd::UpdateNumberOfPrunableBlocks { value } => log.lock().unwrap().push(Ev::UpdateNumPrunable(value)),
            }
        }
        if iters(&log) > ITERATIONS {
            break;
        }
        if !progressed && log.lock().unwrap().len() == before {
            // nothing to answer: let the pruner's own timer (block_time) fire
            tokio::time::sleep(block_time).await;
        }
    }
    pruner.stop();
    drop(pending);
    // close the Daser side: a question still queued (or asked from now on) fails instead of blocking
    drop(daser);
    // let it wind down (it may still be inside a batch; removal stops at the next height)
    let joined = tokio::time::timeout(Duration::from_secs(10 * HOUR), pruner.join()).await.is_ok();
    let mut fatal = None;
    while let Ok(ev) = sub.try_recv() {
        if let lumina_node::events::NodeEvent::FatalPrunerError { error } = &ev.event {
            fatal = Some(error.clone());
        }
    }

    // ---- oracle over the log
    let log_v: Vec<Ev> = log.lock().unwrap().clone();
    let mut viol: Vec<(String, String)> = vec![];
    let mut stats = RunStats::default();
    let synced: BTreeSet<u64> = (1..=n).filter(|h| cfg.status[*h as usize - 1] != St::Gap).collect();
    let mut stored: BTreeSet<u64> = (1..=n).filter(|h| matches!(cfg.status[*h as usize - 1], St::Unsampled | St::Sampled)).collect();
    let sampled: BTreeSet<u64> = (1..=n).filter(|h| cfg.status[*h as usize - 1] == St::Sampled).collect();
    let mut bs_removed: BTreeSet<Vec<u8>> = BTreeSet::new();
    let mut last_answer: BTreeMap<u64, bool> = BTreeMap::new();
    for ev in &log_v {
        match ev {
            Ev::IterStart => stats.iterations += 1,
            Ev::BsRemove(c) => {
                bs_removed.insert(c.clone());
            }
            Ev::Ask(h, granted) => {
                stats.asks += 1;
                if !granted {
                    stats.refusals += 1;
                }
                last_answer.insert(*h, *granted);
            }
            Ev::RemoveHeight(h, ok) => {
                let h = *h;
                if !*ok || !stored.contains(&h) {
                    // not a removal of a stored header; the pruner dies with a store error
                    continue;
                }
                stats.removed += 1;
                stored.remove(&h);
                let in_p = cfg.inside_pruning_window(h);
                let in_s = cfg.inside_sampling_window(h);
                if in_p {
                    viol.push(viol_m(
                        "removed-inside-pruning-window",
                        format!("height {h} (age {} s) was removed although it is inside the pruning window of {} h", cfg.age_secs(h), cfg.order.windows_h().0),
                    ));
                }
                if in_s {
                    stats.removed_inside_sampling_window += 1;
                    if !sampled.contains(&h) {
                        viol.push(viol_m(
                            "removed-unsampled-inside-sampling-window",
                            format!("height {h} (age {} s) is inside the sampling window of {} h and not sampled, but was removed", cfg.age_secs(h), cfg.order.windows_h().1),
                        ));
                    }
                    let borders_gap = !synced.contains(&(h + 1)) || (h > 1 && !synced.contains(&(h - 1)));
                    if borders_gap {
                        viol.push(viol_m(
                            "removed-edge-of-synced-range-inside-sampling-window",
                            format!("height {h} is inside the sampling window and borders an unsynced gap (synced = stored ∪ pruned = {synced:?}), but was removed"),
                        ));
                    }
                } else if !in_p {
                    stats.removed_outside_both += 1;
                }
                match last_answer.get(&h) {
                    Some(false) => viol.push(viol_m(
                        "removed-after-daser-refused",
                        format!("height {h} was removed although the Daser's latest answer to WantToPrune({h}) was a refusal (sampling in progress)"),
                    )),
                    None if !sampled.contains(&h) => viol.push(viol_m(
                        "removed-unsampled-without-daser-grant",
                        format!("height {h} is not sampled and was removed without the Daser having granted WantToPrune({h})"),
                    )),
                    _ => {}
                }
                if let Some(cids) = cfg.meta(h) {
                    if !cids.is_empty() {
                        stats.removed_with_cids += 1;
                    }
                    for (i, c) in cids.iter().enumerate() {
                        if !bs_removed.contains(&c.to_bytes()) {
                            viol.push(viol_m(
                                "header-removed-before-its-cids",
                                format!("height {h} was removed from the store before CID #{i} of its sampling metadata was removed from the blockstore"),
                            ));
                        }
                    }
                }
            }
            _ => {}
        }
    }
    // The only error the harness itself causes is the dropped reply of a pending question.
    let fatal_unexpected = match &fatal {
        Some(e) => !(e.contains("Daser") || e.contains("daser")),
        None => false,
    };
    let obs: Vec<String> = log_v
        .iter()
        .filter(|e| matches!(e, Ev::RemoveHeight(..) | Ev::BsRemove(..) | Ev::Ask(..)))
        .map(|e| format!("{e:?}"))
        .collect();
    let obs_key = fnv64(obs.join(";").as_bytes());
    let class = if class_hint == "horizon" {
        "horizon".to_string()
    } else if fatal_unexpected {
        "fatal".to_string()
    } else {
        format!(
            "{}{}{}",
            if stats.removed > 0 { "removed" } else { "kept" },
            if stats.asks > stats.refusals { "+grant" } else { "" },
            if stats.refusals > 0 { "+refuse" } else { "" }
        )
    };
    if keep_labels {
        ch.labels.push(format!("config: {}", serde_json::to_string(cfg).unwrap()));
        ch.labels.push(format!("log: {}", render_log(&log_v)));
        if let Some(f) = &fatal {
            ch.labels.push(format!("fatal event: {f}"));
        }
    }
    if !joined {
        // not part of the property: the harness could not wind the system down
        ch.diverged = Some("the pruner task did not finish after stop() (JoinHandle::join pending for 10 virtual hours)".to_string());
    }
    if fatal_unexpected {
        ch.diverged = Some(format!("pruner died with an error the harness did not cause: {}", fatal.clone().unwrap_or_default()));
    }
    let events_n = log_v.len() as u64;
    RunOut { exec: Exec::from_chooser(ch, class, obs_key, viol, events_n), stats, log: log_v }
}

fn viol_m(k: &str, what: String) -> (String, String) {
    (k.to_string(), what)
}

pub fn render_log(log: &[Ev]) -> String {
    log.iter()
        .map(|e| match e {
            Ev::IterStart => "iter".to_string(),
            Ev::RemoveHeight(h, ok) => format!("remove_height({h}){}", if *ok { "" } else { "!err" }),
            Ev::BsRemove(c) => {
                // last 9 bytes of the digest: height (le) + index
                let d = &c[c.len() - 9..];
                let mut hb = [0u8; 8];
                hb.copy_from_slice(&d[..8]);
                format!("bs.remove(cid {}#{})", u64::from_le_bytes(hb), d[8])
            }
            Ev::Ask(h, g) => format!("WantToPrune({h})->{}", if *g { "grant" } else { "refuse" }),
            Ev::UpdateHighest(v) => format!("highest_prunable={v}"),
            Ev::UpdateNumPrunable(v) => format!("num_prunable={v}"),
        })
        .collect::<Vec<_>>()
        .join(" ")
}
