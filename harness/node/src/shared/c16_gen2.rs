//! C16: fixtures of the node-side decoders (shrex codec, shrex-sub notification, bitswap
//! blocks, header-ex codec).
#![allow(dead_code)]

use std::sync::Arc;

use celestia_proto::bitswap::Block as RawBlock;
use celestia_proto::p2p::pb::header_request::Data;
use celestia_proto::p2p::pb::{HeaderRequest, HeaderResponse};
use celestia_proto::share::p2p::shrex::sub::RecentEdsNotification;
use celestia_proto::shwap::RowNamespaceData as RawRnd;
use celestia_types::AxisType;
use lv_core::{Fill, machinery_error};
use prost::Message;
use tendermint_proto::Protobuf;

use crate::c16_dec::{Cx, D, Frame, Fx, TypedGen};
use crate::c16_fix::Env;
use crate::c16_gen::{cycle_of, delimited, digits, mk_fx, mk_typed, namespace_of, product_of, raw_sample_of, rnd_namespaces_of, row_raws_of};
use crate::c16_wire::{EXTREMES, put_varint, varint};
use crate::shwap_squares as sqs;

const ID: &str = "C16";

// codec / multihash codes of the shwap ids
const ROW: (u64, u64) = (0x7800, 0x7801);
const SAMPLE: (u64, u64) = (0x7810, 0x7811);
const RND: (u64, u64) = (0x7820, 0x7821);

fn cid_bytes(version: u64, codec: u64, mh: u64, declared_len: u64, digest: &[u8]) -> Vec<u8> {
    let mut v = varint(version);
    put_varint(codec, &mut v);
    put_varint(mh, &mut v);
    put_varint(declared_len, &mut v);
    v.extend_from_slice(digest);
    v
}

fn row_digest(h: u64, row: u16) -> Vec<u8> {
    let mut d = h.to_be_bytes().to_vec();
    d.extend_from_slice(&row.to_be_bytes());
    d
}

/// The id alphabet of the bitswap blocks: heights x row/column indexes.
fn block_typed(kind: (u64, u64), honest_digest: Vec<u8>, container: Vec<u8>, ew: usize, height: u64) -> (usize, TypedGen) {
    let heights: Vec<u64> = vec![height, 0, 1, height + 1, 1 << 31, u32::MAX as u64, i64::MAX as u64, 1 << 63, u64::MAX];
    let idxs: Vec<u16> = {
        let mut v = vec![0u16, 1, (ew / 2) as u16, (ew - 1) as u16, ew as u16, 32767, 32768, 65535];
        v.sort();
        v.dedup();
        v
    };
    // A: height x row x col (x container form 3)
    let dims_a = [heights.len(), idxs.len(), idxs.len(), 3];
    let n_a = product_of(&dims_a);
    // B: cid envelope: version(3) x codec(4) x mh(4) x declared digest length(7) x digest bytes(4)
    let dims_b = [3usize, 4, 4, 7, 4];
    let n_b = product_of(&dims_b);
    let g: TypedGen = Arc::new(move |ord| {
        let tail = honest_digest[10.min(honest_digest.len())..].to_vec();
        if ord < n_a {
            let d = digits(ord, &dims_a);
            let mut dg = row_digest(heights[d[0]], idxs[d[1]]);
            if kind == SAMPLE {
                dg.extend_from_slice(&idxs[d[2]].to_be_bytes());
            } else {
                dg.extend_from_slice(&tail);
            }
            let cont = match d[3] {
                0 => container.clone(),
                1 => vec![],
                _ => container[..container.len() / 2].to_vec(),
            };
            let b = RawBlock { cid: cid_bytes(1, kind.0, kind.1, dg.len() as u64, &dg), container: cont };
            return (format!("block[height={} row={} col={} container#{}]", heights[d[0]], idxs[d[1]], idxs[d[2]], d[3]), b.encode_to_vec());
        }
        let d = digits(ord - n_a, &dims_b);
        let version = [1u64, 0, 2][d[0]];
        let codec = [kind.0, kind.0 ^ 0x10, 0x55, u64::MAX][d[1]];
        let mh = [kind.1, kind.1 ^ 0x10, 0x12, u64::MAX][d[2]];
        let n = honest_digest.len();
        let declared = [n as u64, 0, n as u64 - 1, n as u64 + 1, 64, 65, u64::MAX][d[3]];
        let dg: Vec<u8> = match d[4] {
            0 => honest_digest.clone(),
            1 => vec![],
            2 => honest_digest[..n - 1].to_vec(),
            _ => {
                let mut x = honest_digest.clone();
                x.resize(200, 0xaa);
                x
            }
        };
        let b = RawBlock { cid: cid_bytes(version, codec, mh, declared, &dg), container: container.clone() };
        (format!("block[cid version={version} codec={codec:#x} mh={mh:#x} declared_len={declared} digest#{}]", d[4]), b.encode_to_vec())
    });
    (n_a + n_b, g)
}

fn bitswap_fixtures(env: &Env, d: D, out: &mut Vec<Fx>) {
    let t = env.thorough;
    for (si, sq) in env.squares.iter().enumerate() {
        let ew = sq.eds_width();
        if !t && ew > 4 && d != D::BitswapSample {
            continue;
        }
        let h = env.height_of_square(si);
        let mut push = |name: String, kind: (u64, u64), digest: Vec<u8>, container: Vec<u8>, typed: bool| {
            let cid = cid_bytes(1, kind.0, kind.1, digest.len() as u64, &digest);
            let block = RawBlock { cid: cid.clone(), container: container.clone() }.encode_to_vec();
            let f = mk_fx(d, name, Cx::Block { code: kind.1, expected_cid: cid }, Frame::Plain, block, true);
            if typed {
                let (n, g) = block_typed(kind, digest, container, ew, h);
                out.push(mk_typed(f, n, g));
            } else {
                out.push(f);
            }
        };
        match d {
            D::BitswapSample | D::BlockContainer => {
                let pos = if d == D::BlockContainer { vec![(0, 0)] } else { vec![(0, 0), (ew - 1, ew - 1), (ew / 2, 0)] };
                for (k, (r, c)) in pos.into_iter().enumerate() {
                    if ew == 2 && k == 2 {
                        continue;
                    }
                    let ax = if k % 2 == 0 { AxisType::Row } else { AxisType::Col };
                    let raw = raw_sample_of(env, si, r, c, ax);
                    let mut dg = row_digest(h, r as u16);
                    dg.extend_from_slice(&(c as u16).to_be_bytes());
                    push(format!("sq{si}-w{ew}-sample-r{r}-c{c}"), SAMPLE, dg, raw.encode_to_vec(), k == 0);
                }
            }
            D::BitswapRow => {
                for i in [0, ew - 1] {
                    let (left, _) = row_raws_of(env, si, i);
                    push(format!("sq{si}-w{ew}-row{i}"), ROW, row_digest(h, i as u16), left.encode_to_vec(), i == 0);
                }
            }
            _ => {
                for (nsb, label) in rnd_namespaces_of(sq).into_iter().take(if t { 5 } else { 2 }) {
                    let ns = namespace_of(&nsb);
                    let rows = sq.eds.get_namespace_data(ns, &sq.dah, h).unwrap_or_else(|e| machinery_error(ID, &format!("fixture get_namespace_data: {e}")));
                    if let Some((id, rnd)) = rows.into_iter().next() {
                        let mut dg = row_digest(h, id.row_index());
                        dg.extend_from_slice(&nsb);
                        push(format!("sq{si}-w{ew}-rnd-{label}-row{}", id.row_index()), RND, dg, RawRnd::from(rnd).encode_to_vec(), label == "first");
                    }
                }
            }
        }
    }
}

fn hex_request_typed() -> (usize, TypedGen) {
    // data: none | origin in EXTREMES | hash of 7 lengths  (17)  x amount in EXTREMES (9)
    let hash_lens = [0usize, 1, 31, 32, 33, 200, 1023];
    let n_a = 17 * 9;
    // declared length prefix adversaries x 3 payloads
    let n_b = 12 * 3;
    let g: TypedGen = Arc::new(move |ord| {
        if ord < n_a {
            let (k, a) = (ord / 9, ord % 9);
            let data = match k {
                0 => None,
                1..=9 => Some(Data::Origin(EXTREMES[k - 1])),
                _ => Some(Data::Hash(vec![0x5a; hash_lens[k - 10]])),
            };
            let r = HeaderRequest { data, amount: EXTREMES[a] };
            return (format!("request[data#{k} amount={:#x}]", EXTREMES[a]), r.encode_length_delimited_to_vec());
        }
        let k = ord - n_a;
        let payload = match k % 3 {
            0 => HeaderRequest { data: Some(Data::Origin(5)), amount: 3 }.encode_to_vec(),
            1 => HeaderRequest { data: Some(Data::Hash(vec![7; 32])), amount: 1 }.encode_to_vec(),
            _ => vec![],
        };
        let n = payload.len() as u64;
        let declared: Vec<u8> = match k / 3 {
            0 => varint(0),
            1 => varint(n.saturating_sub(1)),
            2 => varint(n + 1),
            3 => varint(1023),
            4 => varint(1024),
            5 => varint(1025),
            6 => varint(1 << 31),
            7 => varint(1 << 32),
            8 => varint(1 << 63),
            9 => varint(u64::MAX),
            10 => vec![0xff; 11],
            _ => vec![0x80, 0x80, 0x80, 0x80, 0x80, 0x80, 0x80, 0x80, 0x80, 0x02],
        };
        let mut b = declared;
        b.extend_from_slice(&payload);
        (format!("request[length-prefix#{} payload#{}]", k / 3, k % 3), b)
    });
    (n_a + n_b, g)
}

fn hex_response_typed(bodies: Vec<Vec<u8>>, thorough: bool) -> (usize, TypedGen) {
    // entries(0..=3 + 64) x status(7) x body form(5)
    const ST: [i32; 7] = [1, 0, 2, 3, -1, i32::MAX, i32::MIN];
    let counts = [1usize, 0, 2, 3, 64];
    let dims = [counts.len(), ST.len(), 5];
    let n_a = product_of(&dims);
    let n_b = 12;
    // streams of empty entries (one zero byte each): 1 Ki, 1 Mi (thorough: 10 Mi - 1, 10 Mi, 10 Mi + 1;
    // each of those takes seconds: ten million one-byte messages)
    const ZEROS_ALL: [usize; 5] = [1 << 10, 1 << 20, (10 << 20) - 1, 10 << 20, (10 << 20) + 1];
    let zeros: Vec<usize> = if thorough { ZEROS_ALL.to_vec() } else { ZEROS_ALL[..2].to_vec() };
    let n_zeros = zeros.len();
    let g: TypedGen = Arc::new(move |ord| {
        if ord >= n_a + n_b {
            let n = zeros[ord - n_a - n_b];
            return (format!("response[{n} empty entries]"), vec![0u8; n]);
        }
        if ord < n_a {
            let d = digits(ord, &dims);
            let mut b = vec![];
            for i in 0..counts[d[0]] {
                let body = &bodies[i % bodies.len()];
                let body: Vec<u8> = match d[2] {
                    0 => body.clone(),
                    1 => vec![],
                    2 => body[..body.len() / 2].to_vec(),
                    3 => vec![0xff; 64],
                    _ => {
                        let mut x = body.clone();
                        x.extend_from_slice(body);
                        x
                    }
                };
                let r = HeaderResponse { body, status_code: ST[d[1]] };
                b.extend(r.encode_length_delimited_to_vec());
            }
            return (format!("response[entries={} status={} body#{}]", counts[d[0]], ST[d[1]], d[2]), b);
        }
        let k = ord - n_a;
        let payload = HeaderResponse { body: bodies[0].clone(), status_code: 1 }.encode_to_vec();
        let n = payload.len() as u64;
        let declared: Vec<u8> = match k {
            0 => varint(0),
            1 => varint(n - 1),
            2 => varint(n + 1),
            3 => varint(10 * 1024 * 1024 - 1),
            4 => varint(10 * 1024 * 1024),
            5 => varint(10 * 1024 * 1024 + 1),
            6 => varint(1 << 31),
            7 => varint(1 << 32),
            8 => varint(1 << 63),
            9 => varint(u64::MAX),
            10 => vec![0xff; 11],
            _ => vec![0x80, 0x80, 0x80, 0x80, 0x80, 0x80, 0x80, 0x80, 0x80, 0x02],
        };
        let mut b = declared;
        b.extend_from_slice(&payload);
        (format!("response[length-prefix#{k}]"), b)
    });
    (n_a + n_b + n_zeros, g)
}

fn eds_typed(payload: Vec<u8>, thorough: bool) -> (usize, TypedGen) {
    // share counts x content (honest prefix cycled / zeros / 0xff) ; plus lengths off a share boundary
    let mut counts: Vec<usize> = vec![0, 1, 2, 3, 4, 5, 8, 9, 15, 16, 17, 25, 36, 63, 64, 65, 200];
    if thorough {
        counts.extend([256, 1024, 1089, 4096]);
    }
    let offs: [i64; 4] = [0, -1, 1, 256];
    let dims = [counts.len(), 3, offs.len()];
    let n = product_of(&dims);
    let g: TypedGen = Arc::new(move |ord| {
        let d = digits(ord, &dims);
        let len = ((counts[d[0]] * 512) as i64 + offs[d[2]]).max(0) as usize;
        let b: Vec<u8> = match d[1] {
            0 => (0..len).map(|i| payload[i % payload.len()]).collect(),
            1 => vec![0; len],
            _ => vec![0xff; len],
        };
        (format!("eds[shares={} content#{} len_offset={}]", counts[d[0]], d[1], offs[d[2]]), b)
    });
    (n, g)
}

fn notif_typed(honest_hash: Vec<u8>, empty_hash: Vec<u8>) -> (usize, TypedGen) {
    let lens = [32usize, 0, 1, 31, 33, 64, 200];
    let dims = [9usize, lens.len(), 4];
    let n = product_of(&dims);
    let g: TypedGen = Arc::new(move |ord| {
        let d = digits(ord, &dims);
        let src: Vec<u8> = match d[2] {
            0 => honest_hash.clone(),
            1 => vec![0; 32],
            2 => empty_hash.clone(),
            _ => vec![0xff; 32],
        };
        let data_hash = cycle_of(&src, 0, lens[d[1]]);
        let m = RecentEdsNotification { height: EXTREMES[d[0]], data_hash };
        (format!("notification[height={:#x} hash_len={} content#{}]", EXTREMES[d[0]], lens[d[1]], d[2]), m.encode_to_vec())
    });
    (n, g)
}

pub fn fixtures(env: &Env, d: D) -> Vec<Fx> {
    let t = env.thorough;
    let mut out: Vec<Fx> = vec![];
    match d {
        D::ShrexEds => {
            for (si, sq) in env.squares.iter().enumerate() {
                let h = env.height_of_square(si);
                let payload = sq.payload();
                for app in [6u64, 2] {
                    let ok = sq.admitted_by(celestia_types::AppVersion::from_u64(app).unwrap());
                    if app == 2 && ok && si != 1 {
                        continue;
                    }
                    let f = mk_fx(d, format!("sq{si}-w{}-{}-app{app}", sq.w, sq.layout.name()), Cx::Eds { height: h, sq: si, app }, Frame::Raw, payload.clone(), ok);
                    if sq.w <= 2 && app == 6 {
                        let (n, g) = eds_typed(payload.clone(), t);
                        out.push(mk_typed(f, n, g));
                    } else {
                        out.push(f);
                    }
                }
            }
        }
        D::ShrexReqEds | D::ShrexReqRow | D::ShrexReqSample | D::ShrexReqNamespaceData => {
            let nsb = sqs::user_ns(1);
            for (k, (height, row, col)) in [(1u64, 0u16, 0u16), (u64::MAX, 65535, 65535), (0x0102_0304_0506_0708, 0x090a, 0x0b0c)].into_iter().enumerate() {
                let mut b = height.to_be_bytes().to_vec();
                match d {
                    D::ShrexReqEds => {}
                    D::ShrexReqRow => b.extend_from_slice(&row.to_be_bytes()),
                    D::ShrexReqSample => {
                        b.extend_from_slice(&row.to_be_bytes());
                        b.extend_from_slice(&col.to_be_bytes());
                    }
                    _ => b.extend_from_slice(&nsb),
                }
                let mut f = mk_fx(d, format!("id{k}"), Cx::None, Frame::Raw, b, true);
                f.all_values = true;
                out.push(f);
            }
        }
        D::EdsNotification => {
            let mut fill = Fill::new(env.seed, 0xC16E);
            let hash = fill.bytes(32);
            let empty = lumina_node::verif::shwap::empty_eds_data_hash().as_bytes().to_vec();
            for (k, height) in [5u64, u64::MAX].into_iter().enumerate() {
                let m = RecentEdsNotification { height, data_hash: hash.clone() };
                let mut f = mk_fx(d, format!("notification{k}"), Cx::None, Frame::Plain, m.encode_to_vec(), true);
                f.all_values = true;
                let (n, g) = notif_typed(hash.clone(), empty.clone());
                out.push(mk_typed(f, n, g));
            }
        }
        D::BitswapSample | D::BitswapRow | D::BitswapRowNamespaceData | D::BlockContainer => bitswap_fixtures(env, d, &mut out),
        D::HexRequest => {
            let reqs = [
                HeaderRequest { data: Some(Data::Origin(1)), amount: 1 },
                HeaderRequest { data: Some(Data::Origin(u64::MAX - 3)), amount: 512 },
                HeaderRequest { data: Some(Data::Hash(env.headers[0].hash().as_bytes().to_vec())), amount: 1 },
            ];
            for (k, r) in reqs.into_iter().enumerate() {
                let mut f = mk_fx(d, format!("request{k}"), Cx::None, Frame::Seq, r.encode_length_delimited_to_vec(), true);
                f.all_values = true;
                if k == 0 {
                    let (n, g) = hex_request_typed();
                    f = mk_typed(f, n, g);
                }
                out.push(f);
            }
        }
        D::HexResponse => {
            let body = |i: usize| env.headers[i].clone().encode_vec();
            let resp = |i: usize| HeaderResponse { body: body(i), status_code: 1 }.encode_length_delimited_to_vec();
            let last = env.headers.len() - 1;
            // (name, request, stream, honest outcome ok)
            let mut cases: Vec<(String, HeaderRequest, Vec<u8>, bool)> = vec![
                ("origin1-amount1".into(), HeaderRequest { data: Some(Data::Origin(1)), amount: 1 }, resp(0), true),
                ("origin2-amount3".into(), HeaderRequest { data: Some(Data::Origin(2)), amount: 3 }, [resp(1), resp(2), resp(3)].concat(), true),
                ("head".into(), HeaderRequest { data: Some(Data::Origin(0)), amount: 1 }, resp(last), true),
                ("by-hash".into(), HeaderRequest { data: Some(Data::Hash(env.headers[2].hash().as_bytes().to_vec())), amount: 1 }, resp(2), true),
                ("not-found".into(), HeaderRequest { data: Some(Data::Origin(77)), amount: 1 }, HeaderResponse { body: vec![], status_code: 2 }.encode_length_delimited_to_vec(), false),
            ];
            cases.push(("origin-max-amount-max".into(), HeaderRequest { data: Some(Data::Origin(u64::MAX)), amount: u64::MAX }, [resp(1), resp(2)].concat(), false));
            if t {
                cases.push(("origin1-amount64".into(), HeaderRequest { data: Some(Data::Origin(1)), amount: 64 }, (0..env.headers.len()).map(resp).collect::<Vec<_>>().concat(), true));
            }
            for (k, (name, req, stream, ok)) in cases.into_iter().enumerate() {
                let f = mk_fx(d, name, Cx::HexResp { req }, Frame::Seq, stream, ok);
                if k == 0 {
                    let (n, g) = hex_response_typed(vec![body(0), body(1), body(2)], t);
                    out.push(mk_typed(f, n, g));
                } else {
                    out.push(f);
                }
            }
        }
        _ => machinery_error(ID, &format!("no fixtures for decoder {}", d.name())),
    }
    let _ = delimited;
    out
}
