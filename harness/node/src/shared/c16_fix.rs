//! C16: honest fixtures (squares, a deterministic signed header chain, an in-memory header
//! store, bad-encoding squares) shared by all decoder families of the sweep.  Everything is
//! a function of (`seed`, tier); nothing here is random.
#![allow(dead_code)]

use std::collections::BTreeMap;
use std::sync::Arc;

use celestia_types::nmt::{NamespacedHash, NamespacedHashExt};
use celestia_types::{DataAvailabilityHeader, ExtendedHeader};
use lumina_node::store::{InMemoryStore, Store};
use lv_core::machinery_error;

use crate::chain;
use crate::shwap_squares::{self as sqs, Layout};
use crate::square as bsq;

pub struct BefpSquare {
    pub name: String,
    pub sq: bsq::Sq,
    pub header: ExtendedHeader,
    /// (axis, index) of the corrupted axis, if any
    pub corrupt: Option<(bsq::Ax, usize)>,
}

pub struct Env {
    pub seed: u64,
    pub thorough: bool,
    pub keys: chain::Keys,
    /// data squares; square i is committed by the header of height i+1
    pub squares: Vec<sqs::Sq>,
    /// the header chain, heights 1..=n (n >= squares.len())
    pub headers: Vec<ExtendedHeader>,
    pub store: Arc<InMemoryStore>,
    pub befp: Vec<BefpSquare>,
}

const ID: &str = "C16";

fn plan(n: usize) -> chain::ChainPlan {
    // validator sets: 1 validator, then 3 (one of which votes nil at height 3), then 2
    let mut sets: Vec<Vec<(u32, u64)>> = vec![];
    for i in 0..=n {
        sets.push(match i % 3 {
            0 => vec![(0, 10)],
            1 => vec![(0, 10), (1, 7), (2, 5)],
            _ => vec![(1, 4), (2, 4)],
        });
    }
    let mut votes: Vec<BTreeMap<u32, chain::VoteKind>> = vec![BTreeMap::new(); n];
    if n > 1 {
        votes[1].insert(2, chain::VoteKind::Nil);
    }
    if n > 4 {
        votes[4].insert(1, chain::VoteKind::Absent);
    }
    chain::ChainPlan {
        chain_id: "lv-c16".into(),
        app: 3,
        salt: 0xC16,
        sets,
        votes,
        dah: vec![],
        block_secs: 12,
    }
}

/// Header at height `i + 1` of `plan`, committing to `dah`, chained to `parent`.
fn header_with_dah(keys: &chain::Keys, plan: &chain::ChainPlan, i: usize, parent: Option<&ExtendedHeader>, dah: Option<DataAvailabilityHeader>) -> ExtendedHeader {
    let b = chain::build(keys, &plan.spec(i), parent.map(chain::block_id_of));
    let mut eh = b.eh;
    if let Some(d) = dah {
        eh.dah = d;
        chain::link(&mut eh);
        chain::seal(keys, &mut eh, &b.order, &b.votes);
    }
    chain::must_validate(ID, &format!("fixture header {}", i + 1), &eh);
    if let Some(p) = parent {
        chain::must_verify(ID, &format!("fixture header {}", i + 1), p, &eh);
    }
    eh
}

fn to_hash(n: &lv_core::oracle::NmtNode) -> NamespacedHash {
    NamespacedHash::from_raw(&n.to_bytes()).expect("90-byte namespaced hash")
}

fn befp_square(keys: &chain::Keys, seed: u64, w: usize, layout: usize, corrupt: Option<(bsq::Ax, usize)>, height_slot: usize) -> BefpSquare {
    befp_square_at(keys, seed, w, layout, corrupt, 0, height_slot)
}

/// `pos`: which cell of the corrupted axis is trashed (a cell of the parity half makes the
/// reconstruction from the parity half produce garbage original shares).
fn befp_square_at(keys: &chain::Keys, seed: u64, w: usize, layout: usize, corrupt: Option<(bsq::Ax, usize)>, pos: usize, height_slot: usize) -> BefpSquare {
    let k = w / 2;
    let ods = bsq::build_ods(k, layout, seed);
    let mut cells = bsq::extend(&ods, k);
    if let Some((ax, idx)) = corrupt {
        let mut fill = lv_core::Fill::new(seed, 0xC16B ^ ((w as u64) << 16) ^ (idx as u64));
        let (r, c) = bsq::Sq::coord(ax, idx, pos);
        if pos >= k {
            // a parity cell is replaced as a whole: Reed-Solomon works byte column by byte
            // column, so only then do the reconstructed originals start with garbage namespaces
            cells[r * w + c] = fill.bytes(bsq::SHARE);
        } else {
            bsq::trash_payload(&mut cells[r * w + c], &mut fill);
        }
    }
    let sq = bsq::Sq::from_cells(cells, w);
    let rows: Vec<NamespacedHash> = (0..w).map(|i| to_hash(&sq.root(bsq::Ax::Row, i))).collect();
    let cols: Vec<NamespacedHash> = (0..w).map(|i| to_hash(&sq.root(bsq::Ax::Col, i))).collect();
    let dah = DataAvailabilityHeader::new_unchecked(rows, cols);
    // a standalone header (own little plan so that the height differs per square)
    let p = plan(height_slot + 1);
    let header = header_with_dah(keys, &p, height_slot, None, Some(dah));
    let name = format!(
        "w{w}-layout{layout}-{}",
        match corrupt {
            None => "honest".to_string(),
            Some((ax, i)) => format!("corrupt-{}{}-cell{pos}", if ax == bsq::Ax::Row { "row" } else { "col" }, i),
        }
    );
    BefpSquare { name, sq, header, corrupt }
}

impl Env {
    pub fn build(seed: u64, thorough: bool) -> Env {
        let keys = chain::Keys::new(seed, 4);
        let mut spec: Vec<(usize, Layout)> = vec![(1, Layout::Empty), (1, Layout::Plain), (2, Layout::Plain), (2, Layout::WithV1), (4, Layout::Plain)];
        if thorough {
            spec.push((8, Layout::Plain));
            spec.push((16, Layout::Plain));
        }
        let mut squares = vec![];
        for (i, (w, l)) in spec.iter().enumerate() {
            let sq = sqs::build(seed, *w, *l, 0x160 + i as u64).unwrap_or_else(|e| machinery_error(ID, &e));
            sqs::check_dah_independently(&sq).unwrap_or_else(|e| machinery_error(ID, &e));
            squares.push(sq);
        }
        let n = squares.len() + 3;
        let p = plan(n);
        let mut headers: Vec<ExtendedHeader> = vec![];
        for i in 0..n {
            let dah = squares.get(i).map(|s| s.dah.clone());
            let eh = header_with_dah(&keys, &p, i, headers.last(), dah);
            headers.push(eh);
        }
        let store = Arc::new(InMemoryStore::new());
        futures::executor::block_on(store.insert(headers.clone())).unwrap_or_else(|e| machinery_error(ID, &format!("fixture store insert: {e}")));
        let mut befp = vec![
            befp_square(&keys, seed, 4, 1, Some((bsq::Ax::Row, 0)), 0),
            befp_square(&keys, seed, 4, 1, Some((bsq::Ax::Col, 3)), 1),
            befp_square(&keys, seed, 4, 0, None, 2),
            befp_square_at(&keys, seed, 4, 1, Some((bsq::Ax::Row, 0)), 3, 5),
            befp_square_at(&keys, seed, 4, 1, Some((bsq::Ax::Col, 1)), 2, 6),
        ];
        if thorough {
            befp.push(befp_square(&keys, seed, 8, 1, Some((bsq::Ax::Row, 5)), 3));
            befp.push(befp_square(&keys, seed, 16, 1, Some((bsq::Ax::Col, 2)), 4));
        }
        Env { seed, thorough, keys, squares, headers, store, befp }
    }

    pub fn height_of_square(&self, i: usize) -> u64 {
        i as u64 + 1
    }
}
