//! Shared by C28 / C29 / C30 (header-ex family): a from-scratch protobuf writer for the two
//! header-ex messages (used to build streams and garbage independently of prost), a
//! scripted `AsyncRead`, a recording `AsyncWrite`, and a per-thread tokio runtime.
#![allow(dead_code)]

use futures::{AsyncRead, AsyncWrite};
use std::future::Future;
use std::io;
use std::pin::Pin;
use std::task::{Context, Poll};

// ------------------------------------------------------------------ runtime

thread_local! {
    static RT: tokio::runtime::Runtime = tokio::runtime::Builder::new_current_thread()
        .enable_time()
        .start_paused(true)
        .build()
        .expect("tokio runtime");
}

/// Runs a future to completion on this thread's current-thread tokio runtime.  The tokio
/// clock is paused: it only moves when the runtime is idle, which never happens here (every
/// `Pending` of the scripted streams wakes the task at once), so the codec's `timeout`s
/// cannot fire because of machine load.
pub fn block_on<F: Future>(f: F) -> F::Output {
    RT.with(|rt| rt.block_on(f))
}

/// `read_response` allocates a zeroed 10 MiB buffer per call.  glibc raises its mmap
/// threshold dynamically after the first such buffer is freed and then serves the next ones
/// from the heap, where `calloc` has to memset all 10 MiB (~1 ms per read).  Pinning the
/// threshold keeps these buffers on fresh (already zero) mmap pages.  Allocator tuning of the
/// harness process only; no effect on what the code under test computes.
pub fn pin_mmap_threshold() {
    unsafe {
        libc::mallopt(libc::M_MMAP_THRESHOLD, 1 << 20);
    }
}

// ------------------------------------------------------------------ protobuf (independent)

pub fn put_varint(mut v: u64, out: &mut Vec<u8>) {
    loop {
        let b = (v & 0x7f) as u8;
        v >>= 7;
        if v == 0 {
            out.push(b);
            return;
        }
        out.push(b | 0x80);
    }
}

pub fn varint(v: u64) -> Vec<u8> {
    let mut o = vec![];
    put_varint(v, &mut o);
    o
}

/// Model of `HeaderRequest` (proto3: oneof data { uint64 origin = 1; bytes hash = 2; } uint64 amount = 3).
#[derive(Clone, Debug, PartialEq, Eq)]
pub enum MData {
    None,
    Origin(u64),
    Hash(Vec<u8>),
}

#[derive(Clone, Debug, PartialEq, Eq)]
pub struct MRequest {
    pub data: MData,
    pub amount: u64,
}

/// Model of `HeaderResponse` (bytes body = 1; enum statusCode = 2).
#[derive(Clone, Debug, PartialEq, Eq)]
pub struct MResponse {
    pub body: Vec<u8>,
    pub status: i32,
}

/// Canonical proto3 payload of a request (oneof members are emitted even when zero/empty,
/// plain fields only when non-default).
pub fn request_payload(r: &MRequest) -> Vec<u8> {
    let mut o = vec![];
    match &r.data {
        MData::None => {}
        MData::Origin(h) => {
            o.push(0x08);
            put_varint(*h, &mut o);
        }
        MData::Hash(b) => {
            o.push(0x12);
            put_varint(b.len() as u64, &mut o);
            o.extend_from_slice(b);
        }
    }
    if r.amount != 0 {
        o.push(0x18);
        put_varint(r.amount, &mut o);
    }
    o
}

pub fn response_payload(r: &MResponse) -> Vec<u8> {
    let mut o = vec![];
    if !r.body.is_empty() {
        o.push(0x0a);
        put_varint(r.body.len() as u64, &mut o);
        o.extend_from_slice(&r.body);
    }
    if r.status != 0 {
        o.push(0x10);
        // int32 enums are sign-extended to 64 bits on the wire
        put_varint(r.status as i64 as u64, &mut o);
    }
    o
}

/// varint(len) ++ payload
pub fn delimited(payload: &[u8]) -> Vec<u8> {
    let mut o = varint(payload.len() as u64);
    o.extend_from_slice(payload);
    o
}

// ------------------------------------------------------------------ scripted reader

/// Chunk boundaries: a bit mask over the n-1 inner positions (bit i set = cut after byte
/// i), a fixed chunk size, or explicit cut offsets (ascending).
#[derive(Clone, Copy, Debug)]
pub enum ChunkEnds<'a> {
    Mask(u64),
    Fixed(usize),
    Cuts(&'a [usize]),
}

/// `AsyncRead` that delivers `data` in the scripted chunks, then EOF.  With `pending`,
/// every chunk and the final EOF are preceded by one `Poll::Pending` (the task is woken
/// immediately).  A read never returns more than the caller's buffer holds; the rest of
/// the chunk is delivered by the following read.
pub struct ScriptedReader<'a> {
    data: &'a [u8],
    pos: usize,
    ends: ChunkEnds<'a>,
    chunk_end: usize,
    pending: bool,
    owe_pending: bool,
    pub reads: u32,
    pub pendings: u32,
}

impl<'a> ScriptedReader<'a> {
    pub fn new(data: &'a [u8], ends: ChunkEnds<'a>, pending: bool) -> Self {
        let mut r = ScriptedReader {
            data,
            pos: 0,
            ends,
            chunk_end: 0,
            pending,
            owe_pending: pending,
            reads: 0,
            pendings: 0,
        };
        r.chunk_end = r.end_after(0);
        r
    }

    /// first chunk end strictly greater than `pos` (or data.len())
    fn end_after(&self, pos: usize) -> usize {
        let n = self.data.len();
        if pos >= n {
            return n;
        }
        match self.ends {
            ChunkEnds::Mask(m) => {
                let mut i = pos;
                while i + 1 < n {
                    if i < 64 && (m >> i) & 1 == 1 {
                        return i + 1;
                    }
                    i += 1;
                }
                n
            }
            ChunkEnds::Fixed(k) => ((pos / k + 1) * k).min(n),
            ChunkEnds::Cuts(c) => c.iter().copied().find(|e| *e > pos && *e < n).unwrap_or(n),
        }
    }
}

impl AsyncRead for ScriptedReader<'_> {
    fn poll_read(mut self: Pin<&mut Self>, cx: &mut Context<'_>, buf: &mut [u8]) -> Poll<io::Result<usize>> {
        let me = &mut *self;
        if me.owe_pending {
            me.owe_pending = false;
            me.pendings += 1;
            cx.waker().wake_by_ref();
            return Poll::Pending;
        }
        me.reads += 1;
        if me.pos >= me.data.len() {
            return Poll::Ready(Ok(0));
        }
        let n = (me.chunk_end - me.pos).min(buf.len());
        buf[..n].copy_from_slice(&me.data[me.pos..me.pos + n]);
        me.pos += n;
        if me.pos == me.chunk_end {
            me.chunk_end = me.end_after(me.pos);
            me.owe_pending = me.pending;
        }
        Poll::Ready(Ok(n))
    }
}

// ------------------------------------------------------------------ recording writer

/// `AsyncWrite` into a byte vector that accepts at most `max_per_write` bytes per call
/// (so `write_all` has to loop), optionally with a `Pending` before every write.
pub struct VecWriter {
    pub buf: Vec<u8>,
    pub max_per_write: usize,
    pending: bool,
    owe_pending: bool,
    pub closed: bool,
}

impl VecWriter {
    pub fn new(max_per_write: usize, pending: bool) -> Self {
        VecWriter {
            buf: vec![],
            max_per_write: max_per_write.max(1),
            pending,
            owe_pending: pending,
            closed: false,
        }
    }
}

impl AsyncWrite for VecWriter {
    fn poll_write(mut self: Pin<&mut Self>, cx: &mut Context<'_>, data: &[u8]) -> Poll<io::Result<usize>> {
        let me = &mut *self;
        if me.owe_pending {
            me.owe_pending = false;
            cx.waker().wake_by_ref();
            return Poll::Pending;
        }
        let n = data.len().min(me.max_per_write);
        me.buf.extend_from_slice(&data[..n]);
        me.owe_pending = me.pending;
        Poll::Ready(Ok(n))
    }
    fn poll_flush(self: Pin<&mut Self>, _: &mut Context<'_>) -> Poll<io::Result<()>> {
        Poll::Ready(Ok(()))
    }
    fn poll_close(mut self: Pin<&mut Self>, _: &mut Context<'_>) -> Poll<io::Result<()>> {
        self.closed = true;
        Poll::Ready(Ok(()))
    }
}
