//! Shared driver of the syncer checks C24 / C25 / C38 (engine E3 `envdfs`).
//!
//! System: the real `Syncer` worker + `InMemoryStore` + the mocked `P2p` (`VP2p`) on a tokio
//! current-thread runtime with the clock paused.  One execution = one sequence of environment
//! choices taken through `lv_core::Chooser`; choice 0 is always the default environment
//! (honest full answer to the oldest outstanding request / reconnect / let the init timers
//! run / stop when the syncer is idle), so the 0-deviation execution is the happy path.
//!
//! After every choice the driver settles (`sleep(1 ms)` on the paused clock returns only when
//! every other task is blocked), drains the commands and node events the syncer emitted, and
//! evaluates the oracles against the store at that moment.
#![allow(dead_code)]

use std::collections::{BTreeSet, VecDeque};
use std::ops::RangeInclusive;
use std::fmt::Display;
use std::sync::atomic::{AtomicU64, Ordering};
use std::sync::{Arc, Mutex};
use std::time::Duration;

use celestia_proto::p2p::pb::header_request::Data;
use async_trait::async_trait;
use celestia_types::ExtendedHeader;
use celestia_types::hash::Hash;
use celestia_types::test_utils::ExtendedHeaderGenerator;
use lumina_node::events::{EventSubscriber, NodeEvent};
use lumina_node::node::{HeaderExError, P2pError};
use lumina_node::block_ranges::BlockRanges;
use lumina_node::store::{InMemoryStore, SamplingMetadata, Store, StoreError, VerifiedExtendedHeaders};
use lumina_node::verif::mock_p2p::{VCmd, VP2p};
use lumina_node::verif::syncer::{VSyncEvents, VSyncer, start_syncer};
use lv_core::*;
use tendermint::Time;
use tokio::sync::oneshot;

pub const SAMPLING_WINDOW: Duration = Duration::from_secs(48 * 3600);
pub const PRUNING_WINDOW: Duration = Duration::from_secs(49 * 3600);
/// Margin of every header time from the sampling-window edge (and from "now").
const MARGIN: Duration = Duration::from_secs(2 * 3600);

// ---------------------------------------------------------------------------------------
// fixture: honest chain A and fork B (same validator key, diverging from height 1)

pub struct Chains {
    /// `a[h-1]` is the honest header of height h.
    pub a: Vec<ExtendedHeader>,
    /// `b[h-1]`: individually valid header of height h of another chain (same chain id and
    /// validator key, different block times, hence different hashes at every height).
    pub b: Vec<ExtendedHeader>,
    /// heights 1..=old_upto are older than the sampling window (by >= 2 h), the others are
    /// inside it (>= 2 h away from the edge and from now).
    pub old_upto: u64,
}

impl Chains {
    pub fn build(old_upto: u64, total: u64) -> Result<Chains, String> {
        let now = Time::now();
        let t_old = (now - (SAMPLING_WINDOW + MARGIN + Duration::from_secs(3600))).map_err(|e| e.to_string())?;
        let t_new = (now - MARGIN).map_err(|e| e.to_string())?;
        let ga = ExtendedHeaderGenerator::new();
        let gb = ga.fork();
        let make = |mut g: ExtendedHeaderGenerator, off_ms: u64| -> Vec<ExtendedHeader> {
            let off = Duration::from_millis(off_ms);
            let mut v = vec![];
            if old_upto > 0 {
                g.set_time((t_old + off).unwrap(), Duration::from_secs(1));
                v.extend(g.next_many_empty(old_upto));
            }
            g.set_time((t_new + off).unwrap(), Duration::from_secs(1));
            v.extend(g.next_many_empty(total - old_upto));
            v
        };
        let a = make(ga, 0);
        let b = make(gb, 500);
        // fixture self-check with the real validation code: a fixture bug is a machinery error
        for chain in [&a, &b] {
            for (i, h) in chain.iter().enumerate() {
                if h.height() != i as u64 + 1 {
                    return Err(format!("fixture: height {} at index {i}", h.height()));
                }
                h.validate().map_err(|e| format!("fixture: header {} invalid: {e}", i + 1))?;
                if i > 0 {
                    chain[i - 1]
                        .verify(h)
                        .map_err(|e| format!("fixture: header {} does not verify: {e}", i + 1))?;
                }
            }
        }
        let edge = (Time::now() - SAMPLING_WINDOW).map_err(|e| e.to_string())?;
        for i in 0..total as usize {
            if a[i].hash() == b[i].hash() {
                return Err(format!("fixture: fork equals honest chain at height {}", i + 1));
            }
            for h in [&a[i], &b[i]] {
                let old = i as u64 + 1 <= old_upto;
                let far_old = h.time().before((edge - Duration::from_secs(3600)).unwrap());
                let far_new = h.time().after((edge + Duration::from_secs(3600)).unwrap());
                if (old && !far_old) || (!old && !far_new) {
                    return Err(format!("fixture: header {} is not >= 1 h away from the window edge", i + 1));
                }
            }
        }
        Ok(Chains { a, b, old_upto })
    }

    /// Chains for the real-time configuration: every header time lies `inside` within a
    /// sampling window of `window` *now* (1 ms apart), so that a real sleep of more than
    /// `inside` moves all of them out of the window.
    pub fn build_aging(total: u64, window: Duration, inside: Duration) -> Result<Chains, String> {
        let t = (Time::now() - (window - inside)).map_err(|e| e.to_string())?;
        let ga = ExtendedHeaderGenerator::new();
        let gb = ga.fork();
        let make = |mut g: ExtendedHeaderGenerator, off_us: u64| -> Vec<ExtendedHeader> {
            // B is shifted by half a millisecond; Time keeps nanoseconds
            g.set_time((t + Duration::from_micros(off_us)).unwrap(), Duration::from_millis(1));
            g.next_many_empty(total)
        };
        let a = make(ga, 0);
        let b = make(gb, 500);
        for chain in [&a, &b] {
            for (i, h) in chain.iter().enumerate() {
                h.validate().map_err(|e| format!("fixture: header {} invalid: {e}", i + 1))?;
                if i > 0 {
                    chain[i - 1]
                        .verify(h)
                        .map_err(|e| format!("fixture: header {} does not verify: {e}", i + 1))?;
                }
            }
        }
        for i in 0..total as usize {
            if a[i].hash() == b[i].hash() {
                return Err(format!("fixture: fork equals honest chain at height {}", i + 1));
            }
        }
        Ok(Chains { a, b, old_upto: 0 })
    }

    pub fn total(&self) -> u64 {
        self.a.len() as u64
    }
    fn a_range(&self, from: u64, n: u64) -> Vec<ExtendedHeader> {
        slice(&self.a, from, n)
    }
    fn b_range(&self, from: u64, n: u64) -> Vec<ExtendedHeader> {
        slice(&self.b, from, n)
    }
}

fn slice(v: &[ExtendedHeader], from: u64, n: u64) -> Vec<ExtendedHeader> {
    if from == 0 {
        return vec![];
    }
    let lo = (from - 1).min(v.len() as u64) as usize;
    let hi = (from - 1).saturating_add(n).min(v.len() as u64) as usize;
    v[lo..hi].to_vec()
}

// ---------------------------------------------------------------------------------------
// configuration

#[derive(Clone, Debug)]
pub struct Menu {
    /// alternative honest-but-partial answers: prefix (n-1 headers, first header only)
    pub prefix: bool,
    /// header-ex error answer (`HeaderNotFound`)
    pub error: bool,
    /// fork range, A|B and B|A splices, `Ok(vec![])`
    pub adversarial: bool,
    /// fork range only (when `adversarial` is off)
    pub fork: bool,
    /// choice points at the syncer's store-call boundaries (`get_stored_header_ranges`,
    /// `get_pruned_ranges`, `get_by_height`, `insert`): "the pruner removes prunable height
    /// #k right now" (same admissibility as `prune`), 0 = nothing happens
    pub store_call_prune: bool,
    /// head request answered with a stale / an advanced honest head
    pub head_variants: bool,
    /// header-sub announces the next head / skips one
    pub header_sub: bool,
    /// `store.remove_height(h)` for every stored h older than the sampling window
    pub prune: bool,
    pub disconnect: bool,
    /// let 61 s of virtual time pass
    pub clock: bool,
}

#[derive(Clone, Debug, Default)]
pub struct Oracles {
    pub c24: bool,
    pub c25: bool,
    pub c38: bool,
}

#[derive(Clone, Debug)]
pub struct SysCfg {
    pub name: &'static str,
    /// heights 1..=old_upto are older than the sampling window
    pub old_upto: u64,
    /// network head when the execution starts
    pub init_head: u64,
    /// length of both chains (heads can be announced up to this height)
    pub total: u64,
    pub batch: u64,
    /// heights already in the store when the syncer starts (contiguous, honest)
    pub prefill: Option<RangeInclusive<u64>>,
    pub menu: Menu,
    pub oracles: Oracles,
    /// default-only events allowed after the last recorded choice before the execution is cut
    /// ("horizon"); the bounded-liveness oracle demands convergence within it
    pub tail_events: usize,
    /// absolute cap on events of one execution
    pub max_events: usize,
    /// real-time configuration: short sampling window, header times `inside` the window at
    /// the start of each execution, environment event "let `sleep` of REAL time pass"
    pub aging: Option<Aging>,
}

#[derive(Clone, Copy, Debug)]
pub struct Aging {
    pub window: Duration,
    pub inside: Duration,
    pub sleep: Duration,
}

impl SysCfg {
    pub fn sampling_window(&self) -> Duration {
        self.aging.map(|a| a.window).unwrap_or(SAMPLING_WINDOW)
    }
}

// coverage counters (non-vacuity), summed over all executions of the process
pub static COV_BATCHES: AtomicU64 = AtomicU64::new(0);
pub static COV_REQUESTS: AtomicU64 = AtomicU64::new(0);
pub static COV_EDGE_PRUNED_THEN_TRIGGER: AtomicU64 = AtomicU64::new(0);
pub static COV_PRUNES: AtomicU64 = AtomicU64::new(0);
pub static COV_FOREIGN_ANSWERS: AtomicU64 = AtomicU64::new(0);
pub static COV_BATCH_FAILED: AtomicU64 = AtomicU64::new(0);
pub static COV_RECONNECTS: AtomicU64 = AtomicU64::new(0);
pub static COV_HEADS_ANNOUNCED: AtomicU64 = AtomicU64::new(0);
pub static COV_WINDOW_STOP: AtomicU64 = AtomicU64::new(0);
pub static COV_STORE_CALL_PRUNES: AtomicU64 = AtomicU64::new(0);
pub static COV_REPLAN_AFTER_AGING: AtomicU64 = AtomicU64::new(0);
pub static COV_REALTIME_RETRIES: AtomicU64 = AtomicU64::new(0);

pub fn coverage_into(rep: &mut Report) {
    rep.extra("realtime_config_attempts_repeated_because_stalled", serde_json::json!(COV_REALTIME_RETRIES.load(Ordering::Relaxed)));
    for (k, c) in [
        ("cov:batches-checked", &COV_BATCHES),
        ("cov:header-requests-checked", &COV_REQUESTS),
        ("cov:prunes", &COV_PRUNES),
        ("cov:window-bounding-header-pruned-then-syncer-triggered", &COV_EDGE_PRUNED_THEN_TRIGGER),
        ("cov:foreign-or-spliced-answers", &COV_FOREIGN_ANSWERS),
        ("cov:batches-failed", &COV_BATCH_FAILED),
        ("cov:reconnects", &COV_RECONNECTS),
        ("cov:heads-announced", &COV_HEADS_ANNOUNCED),
        ("cov:idle-below-old-stored-header", &COV_WINDOW_STOP),
        ("cov:prunes-between-store-calls", &COV_STORE_CALL_PRUNES),
        ("cov:replanning-after-real-time-aging", &COV_REPLAN_AFTER_AGING),
    ] {
        let n = c.load(Ordering::Relaxed);
        if n > 0 {
            rep.classes.insert(k.to_string(), n);
        }
    }
}

// ---------------------------------------------------------------------------------------
// one execution

type Responder = oneshot::Sender<Result<Vec<ExtendedHeader>, P2pError>>;

struct Req {
    origin: u64,
    amount: u64,
    tx: Responder,
}

#[derive(Clone, Copy, Debug, PartialEq)]
enum Ans {
    Honest,
    PrefixAllButOne,
    FirstOnly,
    Empty,
    ErrNotFound,
    Fork,
    SpliceAB,
    SpliceBA,
}

#[derive(Clone, Copy, Debug, PartialEq)]
enum HeadAns {
    Honest,
    Stale,
    Advanced,
    ErrNotFound,
}

#[derive(Clone, Copy, Debug, PartialEq)]
enum Act {
    Answer(usize, Ans),
    Head(usize, HeadAns),
    Reconnect,
    /// let virtual time pass (1 s steps, at most 120) until the syncer emits a command
    Tick,
    Stop,
    AnnounceNext,
    AnnounceSkip,
    Prune(u64),
    Disconnect,
    Advance61,
    /// REAL time passes (`std::thread::sleep`); the tokio clock stays paused
    RealSleep,
}

struct Batch {
    from: u64,
    to: u64,
    stored_at_start: BTreeSet<u64>,
    pruned_at_start: BTreeSet<u64>,
    /// every answer given to this batch so far consisted of honest headers
    honest: bool,
    finished: bool,
}

/// State shared between the driver loop and the store the syncer works on.
pub struct Hook {
    pub chooser: Chooser,
    /// choice points at store-call boundaries are live
    enabled: bool,
    old_upto: u64,
    trace: Vec<String>,
    edge_pruned: bool,
}

/// Whether `h` is the start of the highest synced (stored or pruned) range.
fn is_window_edge(stored: &BTreeSet<u64>, pruned: &BTreeSet<u64>, h: u64) -> bool {
    let synced: BTreeSet<u64> = stored.union(pruned).copied().collect();
    let Some(m) = synced.iter().next_back().copied() else {
        return false;
    };
    let mut s = m;
    while s > 1 && synced.contains(&(s - 1)) {
        s -= 1;
    }
    s == h
}

/// The `Store` handed to the syncer: `InMemoryStore` plus environment choice points right
/// before the store calls of the planning step ("the concurrently running pruner removes a
/// prunable height now").  Choice 0 = nothing happens.
pub struct ChoiceStore {
    inner: Arc<InMemoryStore>,
    hook: Arc<Mutex<Hook>>,
}

impl std::fmt::Debug for ChoiceStore {
    fn fmt(&self, f: &mut std::fmt::Formatter<'_>) -> std::fmt::Result {
        f.write_str("ChoiceStore")
    }
}

impl ChoiceStore {
    async fn point(&self, call: &'static str) {
        let (enabled, old_upto) = {
            let h = self.hook.lock().unwrap();
            (h.enabled, h.old_upto)
        };
        if !enabled {
            return;
        }
        let stored = ranges_to_set(&self.inner.get_stored_header_ranges().await.unwrap());
        let prunable: Vec<u64> = stored.iter().copied().filter(|h| *h <= old_upto).collect();
        if prunable.is_empty() {
            return;
        }
        let c = {
            let mut h = self.hook.lock().unwrap();
            h.chooser.choose(1 + prunable.len(), || {
                format!(
                    "before the syncer's store call {call}, store=[{}] | 0:Nothing {}",
                    show(&stored),
                    prunable.iter().enumerate().map(|(i, p)| format!("{}:PrunerRemoves({p})", i + 1)).collect::<Vec<_>>().join(" ")
                )
            })
        };
        if c > 0 {
            let height = prunable[c - 1];
            let pruned = ranges_to_set(&self.inner.get_pruned_ranges().await.unwrap());
            let edge = is_window_edge(&stored, &pruned, height);
            let r = self.inner.remove_height(height).await;
            COV_PRUNES.fetch_add(1, Ordering::Relaxed);
            COV_STORE_CALL_PRUNES.fetch_add(1, Ordering::Relaxed);
            let mut h = self.hook.lock().unwrap();
            h.edge_pruned |= edge;
            h.trace.push(format!("prune-before:{call}:{height}:{}", r.is_ok()));
        }
    }
}

#[async_trait]
impl Store for ChoiceStore {
    async fn get_head(&self) -> Result<ExtendedHeader, StoreError> {
        self.inner.get_head().await
    }
    async fn get_by_hash(&self, hash: &Hash) -> Result<ExtendedHeader, StoreError> {
        self.inner.get_by_hash(hash).await
    }
    async fn get_by_height(&self, height: u64) -> Result<ExtendedHeader, StoreError> {
        self.point("get_by_height").await;
        self.inner.get_by_height(height).await
    }
    async fn wait_new_head(&self) -> u64 {
        self.inner.wait_new_head().await
    }
    async fn wait_height(&self, height: u64) -> Result<(), StoreError> {
        self.inner.wait_height(height).await
    }
    async fn head_height(&self) -> Result<u64, StoreError> {
        self.inner.head_height().await
    }
    async fn has(&self, hash: &Hash) -> bool {
        self.inner.has(hash).await
    }
    async fn has_at(&self, height: u64) -> bool {
        self.inner.has_at(height).await
    }
    async fn update_sampling_metadata(&self, height: u64, cids: Vec<cid::Cid>) -> Result<(), StoreError> {
        self.inner.update_sampling_metadata(height, cids).await
    }
    async fn get_sampling_metadata(&self, height: u64) -> Result<Option<SamplingMetadata>, StoreError> {
        self.inner.get_sampling_metadata(height).await
    }
    async fn mark_as_sampled(&self, height: u64) -> Result<(), StoreError> {
        self.inner.mark_as_sampled(height).await
    }
    async fn insert<R>(&self, headers: R) -> Result<(), StoreError>
    where
        R: TryInto<VerifiedExtendedHeaders> + Send,
        <R as TryInto<VerifiedExtendedHeaders>>::Error: Display,
    {
        self.point("insert").await;
        self.inner.insert(headers).await
    }
    async fn get_stored_header_ranges(&self) -> Result<BlockRanges, StoreError> {
        self.point("get_stored_header_ranges").await;
        self.inner.get_stored_header_ranges().await
    }
    async fn get_sampled_ranges(&self) -> Result<BlockRanges, StoreError> {
        self.inner.get_sampled_ranges().await
    }
    async fn get_pruned_ranges(&self) -> Result<BlockRanges, StoreError> {
        self.point("get_pruned_ranges").await;
        self.inner.get_pruned_ranges().await
    }
    async fn remove_height(&self, height: u64) -> Result<(), StoreError> {
        self.inner.remove_height(height).await
    }
    async fn get_identity(&self) -> Result<libp2p_identity::Keypair, StoreError> {
        self.inner.get_identity().await
    }
    async fn close(self) -> Result<(), StoreError> {
        Ok(())
    }
}

struct Sys<'a> {
    cfg: &'a SysCfg,
    ch: &'a Chains,
    p2p: VP2p,
    /// the store itself (the driver's own reads / prunes go here directly)
    store: Arc<InMemoryStore>,
    /// shared with the `ChoiceStore` the syncer works on
    hook: Arc<Mutex<Hook>>,
    events: EventSubscriber,
    syncer: VSyncer<ChoiceStore>,
    /// wall clock taken before the current environment event was injected
    t_action: Time,
    slept: bool,
    started: std::time::Instant,
    /// real time from `started` to the begin of the deliberate real sleep
    pre_phase: Option<Duration>,
    outstanding: VecDeque<Req>,
    /// range requests drained but not yet checked
    pending_fresh: Vec<(u64, u64)>,
    connected: bool,
    hs_ready: bool,
    stalled: bool,
    net_head: u64,
    /// highest head height told to the syncer (head answers, header-sub)
    disclosed: u64,
    max_prefilled: u64,
    batch: Option<Batch>,
    prev_batch: Option<Batch>,
    edge_pruned: bool,
    trace: Vec<String>,
    viol: Vec<(String, String)>,
    first_viol_event: Option<usize>,
    n_events: usize,
}

async fn settle() {
    tokio::time::sleep(Duration::from_millis(1)).await;
}

fn ranges_to_set(r: &lumina_node::block_ranges::BlockRanges) -> BTreeSet<u64> {
    let mut s = BTreeSet::new();
    for x in r.as_ref() {
        for h in x.clone() {
            s.insert(h);
        }
    }
    s
}

fn show(set: &BTreeSet<u64>) -> String {
    // compact run-length form, e.g. "4-7,9"
    let mut out = String::new();
    let mut it = set.iter().copied().peekable();
    while let Some(s) = it.next() {
        let mut e = s;
        while it.peek() == Some(&(e + 1)) {
            e = it.next().unwrap();
        }
        if !out.is_empty() {
            out.push(',');
        }
        if s == e {
            out.push_str(&format!("{s}"));
        } else {
            out.push_str(&format!("{s}-{e}"));
        }
    }
    out
}

impl<'a> Sys<'a> {
    fn violate(&mut self, key: &str, what: String) {
        if self.first_viol_event.is_none() {
            self.first_viol_event = Some(self.n_events);
        }
        if !self.viol.iter().any(|(k, _)| k == key) {
            self.viol.push(viol(key, what));
        }
    }

    async fn snapshot(&self) -> (BTreeSet<u64>, BTreeSet<u64>) {
        let stored = ranges_to_set(&self.store.get_stored_header_ranges().await.unwrap());
        let pruned = ranges_to_set(&self.store.get_pruned_ranges().await.unwrap());
        (stored, pruned)
    }

    /// Pulls the commands the syncer queued; returns how many.
    fn drain_cmds(&mut self) -> usize {
        let mut n = 0;
        while let Some(cmd) = self.p2p.try_next_cmd() {
            n += 1;
            match cmd {
                VCmd::HeaderEx { request, respond_to } => {
                    let origin = match request.data {
                        Some(Data::Origin(o)) => o,
                        _ => {
                            self.trace.push("req:by-hash".into());
                            // the syncer never asks by hash; answer with an error
                            let _ = respond_to.send(Err(P2pError::HeaderEx(HeaderExError::InvalidRequest)));
                            continue;
                        }
                    };
                    self.trace.push(format!("req:{origin}+{}", request.amount));
                    if origin > 0 {
                        self.pending_fresh.push((origin, request.amount));
                    }
                    self.outstanding.push_back(Req {
                        origin,
                        amount: request.amount,
                        tx: respond_to,
                    });
                }
                VCmd::InitHeaderSub { head } => {
                    self.trace.push(format!("init-header-sub:{}", head.height()));
                    self.hs_ready = true;
                }
                VCmd::GetShwapCid { .. } => self.trace.push("cmd:get-shwap-cid".into()),
                VCmd::GetNetworkHead { .. } => self.trace.push("cmd:get-network-head".into()),
                VCmd::Other(s) => {
                    let short: String = s.chars().take(24).collect();
                    self.trace.push(format!("cmd:other:{short}"));
                }
            }
        }
        n
    }

    /// After a settle: drain events and commands, evaluate the oracles.
    async fn observe(&mut self) {
        {
            let mut h = self.hook.lock().unwrap();
            self.trace.append(&mut h.trace);
            self.edge_pruned |= h.edge_pruned;
        }
        let (stored, pruned) = self.snapshot().await;

        // node events first: they tell which batch the following requests belong to
        while let Ok(info) = self.events.try_recv() {
            match info.event {
                NodeEvent::FetchingHeadersStarted { from_height, to_height } => {
                    self.trace.push(format!("batch:{from_height}-{to_height}"));
                    COV_BATCHES.fetch_add(1, Ordering::Relaxed);
                    if self.edge_pruned {
                        COV_EDGE_PRUNED_THEN_TRIGGER.fetch_add(1, Ordering::Relaxed);
                    }
                    self.check_batch(from_height, to_height, &stored, &pruned);
                    let done = self.batch.take();
                    if done.as_ref().is_some_and(|b| b.finished) {
                        self.prev_batch = done;
                    } else {
                        self.prev_batch = None; // cancelled batch: no verdict on repeats
                    }
                    self.batch = Some(Batch {
                        from: from_height,
                        to: to_height,
                        stored_at_start: stored.clone(),
                        pruned_at_start: pruned.clone(),
                        honest: true,
                        finished: false,
                    });
                }
                NodeEvent::FetchingHeadersFinished { from_height, to_height, .. } => {
                    self.trace.push(format!("batch-finished:{from_height}-{to_height}"));
                    if let Some(b) = self.batch.as_mut() {
                        if b.from == from_height && b.to == to_height {
                            b.finished = true;
                        }
                    }
                }
                NodeEvent::FetchingHeadersFailed { from_height, to_height, .. } => {
                    self.trace.push(format!("batch-failed:{from_height}-{to_height}"));
                    COV_BATCH_FAILED.fetch_add(1, Ordering::Relaxed);
                    // the syncer re-plans right after a failure: did it have to notice ageing?
                    if self.slept && self.is_old(to_height + 1) {
                        COV_REPLAN_AFTER_AGING.fetch_add(1, Ordering::Relaxed);
                    }
                    if let Some(b) = self.batch.as_mut() {
                        if b.from == from_height && b.to == to_height {
                            b.finished = true;
                        }
                    }
                }
                NodeEvent::FatalSyncerError { error } => {
                    let short: String = error.chars().take(60).collect();
                    self.trace.push(format!("fatal:{short}"));
                }
                NodeEvent::AddedHeaderFromHeaderSub { height } => {
                    self.trace.push(format!("added-from-header-sub:{height}"));
                    if self.edge_pruned {
                        COV_EDGE_PRUNED_THEN_TRIGGER.fetch_add(1, Ordering::Relaxed);
                    }
                }
                NodeEvent::FetchingHeadHeaderFinished { height, .. } => {
                    self.trace.push(format!("head:{height}"));
                }
                _ => {}
            }
        }

        self.drain_cmds();
        for (origin, amount) in std::mem::take(&mut self.pending_fresh) {
            self.check_request(origin, amount, &stored, &pruned);
        }

        // C38 safety: the store only ever contains headers of the honest chain
        if self.cfg.oracles.c38 {
            for h in &stored {
                let got = self.store.get_by_height(*h).await;
                let ok = match (&got, self.ch.a.get(*h as usize - 1)) {
                    (Ok(x), Some(a)) => x.hash() == a.hash(),
                    _ => false,
                };
                if !ok {
                    let whose = match &got {
                        Ok(x) if self.ch.b.get(*h as usize - 1).is_some_and(|b| b.hash() == x.hash()) => "the fork chain B",
                        Ok(_) => "an unknown chain",
                        Err(_) => "nothing readable",
                    };
                    self.violate(
                        "store-contains-foreign-header",
                        format!("stored height {h} holds a header of {whose}, expected the honest chain's header"),
                    );
                }
            }
        }
        self.trace.push(format!("store:[{}] pruned:[{}]", show(&stored), show(&pruned)));
    }

    /// "Older than the sampling window".  Static configurations: heights 1..=old_upto (>= 2 h
    /// margins).  Real-time configuration: the honest header's time is outside the window
    /// already at the wall-clock instant taken BEFORE the current environment event was
    /// injected — every decision the syncer took since then saw a clock at least that late,
    /// so the header was out of the window for the syncer as well (no false alarm possible; a
    /// header that ages out in between gets no verdict).
    fn is_old(&self, h: u64) -> bool {
        match self.cfg.aging {
            None => h <= self.ch.old_upto,
            Some(a) => {
                let Some(hd) = self.ch.a.get(h as usize - 1) else {
                    return false;
                };
                match self.t_action - a.window {
                    Ok(cutoff) => !hd.time().after(cutoff),
                    Err(_) => false,
                }
            }
        }
    }

    /// Oracles on one announced batch, against the store at the moment it was scheduled.
    fn check_batch(&mut self, a: u64, b: u64, stored: &BTreeSet<u64>, pruned: &BTreeSet<u64>) {
        let synced: BTreeSet<u64> = stored.union(pruned).copied().collect();
        let l = self.cfg.batch;
        let head = self.disclosed.max(self.max_prefilled);
        let ctx = format!(
            "batch {a}..={b}, stored [{}], pruned [{}], network head {head}, batch size {l}",
            show(stored),
            show(pruned)
        );
        if self.cfg.oracles.c24 {
            if a == 0 || a > b {
                self.violate("batch-not-a-valid-range", ctx.clone());
                return;
            }
            if let Some(h) = (a..=b).find(|h| stored.contains(h)) {
                self.violate("batch-contains-stored-height", format!("height {h} is stored; {ctx}"));
            }
            if let Some(h) = (a..=b).find(|h| pruned.contains(h)) {
                self.violate("batch-contains-pruned-height", format!("height {h} was pruned; {ctx}"));
            }
            if b - a + 1 > l {
                self.violate("batch-exceeds-batch-size", ctx.clone());
            }
            if b > head {
                self.violate("batch-above-network-head", ctx.clone());
            }
            match synced.iter().next_back().copied() {
                None => {
                    if a != 1 {
                        self.violate("batch-not-adjacent-to-synced-data", format!("nothing synced, batch must start at 1; {ctx}"));
                    }
                }
                Some(m) if m < head => {
                    if a != m + 1 {
                        self.violate(
                            "batch-not-adjacent-to-synced-data",
                            format!("behind the head: batch must start directly above the highest synced height {m}; {ctx}"),
                        );
                    }
                }
                Some(m) => {
                    // start of the highest synced range
                    let mut s = m;
                    while s > 1 && synced.contains(&(s - 1)) {
                        s -= 1;
                    }
                    if b + 1 != s {
                        self.violate(
                            "batch-not-adjacent-to-synced-data",
                            format!("caught up: batch must end directly below the highest synced range (starting at {s}); {ctx}"),
                        );
                    }
                }
            }
            // "... so that inserting it extends stored data"
            let below = a > 1 && stored.contains(&(a - 1));
            let above = stored.contains(&(b + 1));
            if !stored.is_empty() && !below && !above {
                self.violate(
                    "batch-not-adjacent-to-stored-data",
                    format!("neither {} nor {} is stored, so inserting the batch cannot extend stored data; {ctx}", a.saturating_sub(1), b + 1),
                );
            }
        }
        if self.cfg.oracles.c25 {
            // a synced header above the batch that is older than the sampling window
            // (`h > a`: some requested height lies below h; on a tree that never requests synced
            // heights this is the same as `h > b`)
            if let Some(h) = synced.iter().copied().find(|h| *h > a && self.is_old(*h)) {
                let how = if stored.contains(&h) { "stored" } else { "pruned" };
                let which = match self.cfg.aging {
                    None => format!("heights 1..={} are", self.ch.old_upto),
                    Some(g) => format!("real-time config: window {:?}, header time already outside it before the triggering event", g.window),
                };
                self.violate(
                    "batch-below-old-synced-header",
                    format!("synced ({how}) header {h} is older than the sampling window ({which}), yet the batch requests heights below it; {ctx}"),
                );
            }
            // the same batch again although the previous attempt was answered honestly in full
            // and the store did not change
            if let Some(p) = &self.prev_batch {
                if p.finished && p.honest && p.from == a && p.to == b && &p.stored_at_start == stored && &p.pruned_at_start == pruned {
                    self.violate(
                        "honest-batch-rerequested-without-store-change",
                        format!("the previous attempt for the same batch was answered completely with honest headers and the store is unchanged; {ctx}"),
                    );
                }
            }
        }
    }

    /// C24 on a raw header-ex range request (origin > 0).
    fn check_request(&mut self, origin: u64, amount: u64, stored: &BTreeSet<u64>, pruned: &BTreeSet<u64>) {
        COV_REQUESTS.fetch_add(1, Ordering::Relaxed);
        if !self.cfg.oracles.c24 {
            return;
        }
        let head = self.disclosed.max(self.max_prefilled);
        let ctx = format!(
            "request origin {origin} amount {amount}, stored [{}], pruned [{}], network head {head}, batch size {}",
            show(stored),
            show(pruned),
            self.cfg.batch
        );
        if amount == 0 || origin.checked_add(amount - 1).is_none() {
            self.violate("request-not-a-valid-range", ctx);
            return;
        }
        let end = origin + amount - 1;
        if amount > self.cfg.batch {
            self.violate("request-exceeds-batch-size", ctx.clone());
        }
        if end > head {
            self.violate("request-above-network-head", ctx.clone());
        }
        if let Some(h) = (origin..=end).find(|h| stored.contains(h)) {
            self.violate("request-contains-stored-height", format!("height {h} is stored; {ctx}"));
        }
        if let Some(h) = (origin..=end).find(|h| pruned.contains(h)) {
            self.violate("request-contains-pruned-height", format!("height {h} was pruned; {ctx}"));
        }
        let inside = self.batch.as_ref().is_some_and(|b| b.from <= origin && end <= b.to);
        if !inside {
            let b = self.batch.as_ref().map(|b| format!("{}..={}", b.from, b.to)).unwrap_or("none".into());
            self.violate("request-outside-announced-batch", format!("current batch {b}; {ctx}"));
        }
    }

    fn answer_options(&self, r: &Req, include_default: bool) -> Vec<Ans> {
        let m = &self.cfg.menu;
        let mut v = vec![];
        if include_default {
            v.push(Ans::Honest);
        }
        if m.prefix {
            if r.amount >= 2 {
                v.push(Ans::PrefixAllButOne);
            }
            if r.amount >= 3 {
                v.push(Ans::FirstOnly);
            }
        }
        if m.error {
            v.push(Ans::ErrNotFound);
        }
        if m.fork && !m.adversarial {
            v.push(Ans::Fork);
        }
        if m.adversarial {
            v.push(Ans::Fork);
            if r.amount >= 2 {
                v.push(Ans::SpliceAB);
                v.push(Ans::SpliceBA);
            }
            v.push(Ans::Empty);
        }
        v
    }

    fn head_options(&self, include_default: bool) -> Vec<HeadAns> {
        let m = &self.cfg.menu;
        let mut v = vec![];
        if include_default {
            v.push(HeadAns::Honest);
        }
        if m.head_variants {
            if self.net_head >= 3 {
                v.push(HeadAns::Stale);
            }
            if self.net_head + 2 <= self.ch.total() {
                v.push(HeadAns::Advanced);
            }
        }
        if m.error {
            v.push(HeadAns::ErrNotFound);
        }
        v
    }

    fn menu(&self, stored: &BTreeSet<u64>) -> Vec<Act> {
        let m = &self.cfg.menu;
        let mut v = vec![];
        // choice 0: the default environment
        let default = if let Some(front) = self.outstanding.front() {
            if front.origin == 0 { Act::Head(0, HeadAns::Honest) } else { Act::Answer(0, Ans::Honest) }
        } else if !self.connected {
            Act::Reconnect
        } else if !self.hs_ready && !self.stalled {
            Act::Tick
        } else {
            Act::Stop
        };
        v.push(default);
        for (i, r) in self.outstanding.iter().enumerate().take(2) {
            if r.origin == 0 {
                v.extend(self.head_options(i > 0).into_iter().map(|a| Act::Head(i, a)));
            } else {
                v.extend(self.answer_options(r, i > 0).into_iter().map(|a| Act::Answer(i, a)));
            }
        }
        if m.header_sub && self.connected && self.hs_ready {
            if self.net_head + 1 <= self.ch.total() {
                v.push(Act::AnnounceNext);
            }
            if self.net_head + 2 <= self.ch.total() {
                v.push(Act::AnnounceSkip);
            }
        }
        if m.prune {
            for h in stored.iter().copied().filter(|h| *h <= self.ch.old_upto) {
                v.push(Act::Prune(h));
            }
        }
        if m.disconnect {
            if self.connected {
                v.push(Act::Disconnect);
            } else if default != Act::Reconnect {
                v.push(Act::Reconnect);
            }
        }
        if m.clock {
            v.push(Act::Advance61);
        }
        if self.cfg.aging.is_some() && !self.slept && self.outstanding.iter().any(|r| r.origin > 0) {
            v.push(Act::RealSleep);
        }
        v
    }

    fn build_answer(&self, r: &Req, a: Ans) -> Result<Vec<ExtendedHeader>, P2pError> {
        // a peer cannot serve above the network head
        let n = r.amount.min((self.net_head + 1).saturating_sub(r.origin));
        let not_found = || Err(P2pError::HeaderEx(HeaderExError::HeaderNotFound));
        if n == 0 && a != Ans::Empty {
            return not_found();
        }
        match a {
            Ans::Honest => Ok(self.ch.a_range(r.origin, n)),
            Ans::PrefixAllButOne => Ok(self.ch.a_range(r.origin, n.saturating_sub(1).max(1))),
            Ans::FirstOnly => Ok(self.ch.a_range(r.origin, 1)),
            Ans::Empty => Ok(vec![]),
            Ans::ErrNotFound => not_found(),
            Ans::Fork => Ok(self.ch.b_range(r.origin, n)),
            Ans::SpliceAB => {
                let k = n / 2;
                let mut v = self.ch.a_range(r.origin, k);
                v.extend(self.ch.b_range(r.origin + k, n - k));
                Ok(v)
            }
            Ans::SpliceBA => {
                let k = n / 2;
                let mut v = self.ch.b_range(r.origin, k);
                v.extend(self.ch.a_range(r.origin + k, n - k));
                Ok(v)
            }
        }
    }

    async fn apply(&mut self, act: Act) {
        match act {
            Act::Answer(i, a) => {
                let r = self.outstanding.remove(i).expect("menu index");
                let ans = self.build_answer(&r, a);
                let foreign = matches!(a, Ans::Fork | Ans::SpliceAB | Ans::SpliceBA);
                if foreign {
                    COV_FOREIGN_ANSWERS.fetch_add(1, Ordering::Relaxed);
                }
                if foreign {
                    if let Some(b) = self.batch.as_mut() {
                        b.honest = false;
                    }
                }
                self.trace.push(format!("answer:{}+{}:{a:?}", r.origin, r.amount));
                let _ = r.tx.send(ans);
            }
            Act::Head(i, a) => {
                let r = self.outstanding.remove(i).expect("menu index");
                let ans = match a {
                    HeadAns::Honest => Ok(self.ch.a_range(self.net_head, 1)),
                    HeadAns::Stale => Ok(self.ch.a_range(self.net_head - 2, 1)),
                    HeadAns::Advanced => {
                        self.net_head += 2;
                        Ok(self.ch.a_range(self.net_head, 1))
                    }
                    HeadAns::ErrNotFound => Err(P2pError::HeaderEx(HeaderExError::HeaderNotFound)),
                };
                if let Ok(v) = &ans {
                    self.disclosed = self.disclosed.max(v[0].height());
                }
                self.trace.push(format!("head-answer:{a:?}"));
                let _ = r.tx.send(ans);
            }
            Act::Reconnect => {
                COV_RECONNECTS.fetch_add(1, Ordering::Relaxed);
                self.connected = true;
                self.hs_ready = false;
                self.stalled = false;
                self.trace.push("reconnect".into());
                self.p2p.set_peers(1, 1);
            }
            Act::Disconnect => {
                self.connected = false;
                self.trace.push("disconnect".into());
                self.p2p.set_peers(0, 0);
            }
            Act::Tick => {
                let mut got = false;
                for _ in 0..120 {
                    tokio::time::sleep(Duration::from_secs(1)).await;
                    // range requests seen here are checked by the following `observe`
                    if self.peek_cmds() {
                        got = true;
                        break;
                    }
                }
                if !got {
                    self.stalled = true;
                    self.trace.push("tick:nothing".into());
                } else {
                    self.trace.push("tick".into());
                }
            }
            Act::Stop => {}
            Act::AnnounceNext | Act::AnnounceSkip => {
                self.net_head += if act == Act::AnnounceNext { 1 } else { 2 };
                let h = self.ch.a[self.net_head as usize - 1].clone();
                let ok = self.p2p.announce_new_head(h);
                if ok {
                    self.disclosed = self.disclosed.max(self.net_head);
                    COV_HEADS_ANNOUNCED.fetch_add(1, Ordering::Relaxed);
                }
                self.trace.push(format!("announce:{}:{}", self.net_head, ok));
            }
            Act::Prune(h) => {
                COV_PRUNES.fetch_add(1, Ordering::Relaxed);
                let (stored, pruned) = self.snapshot().await;
                // window-bounding header: the start of the highest synced range
                if is_window_edge(&stored, &pruned, h) {
                    self.edge_pruned = true;
                }
                let r = self.store.remove_height(h).await;
                self.trace.push(format!("prune:{h}:{}", r.is_ok()));
            }
            Act::Advance61 => {
                tokio::time::sleep(Duration::from_secs(61)).await;
                self.trace.push("advance:61s".into());
            }
            Act::RealSleep => {
                let d = self.cfg.aging.expect("menu").sleep;
                self.pre_phase = Some(self.started.elapsed());
                std::thread::sleep(d);
                self.slept = true;
                self.trace.push("real-sleep".into());
            }
        }
    }

    /// Tick helper: whether any command is waiting (they are moved to `outstanding`).
    fn peek_cmds(&mut self) -> bool {
        self.drain_cmds() > 0
    }
}

fn describe(acts: &[Act]) -> String {
    acts.iter()
        .enumerate()
        .map(|(i, a)| format!("{i}:{a:?}"))
        .collect::<Vec<_>>()
        .join(" ")
}

/// Returns the execution and, for the real-time configuration, how much REAL time had passed
/// since `started` when the deliberate sleep began (or when the execution ended without one).
async fn exec_async(cfg: &SysCfg, ch: &Chains, chooser: Chooser, started: std::time::Instant) -> (Exec, Duration) {
    let p2p = VP2p::new();
    let store = Arc::new(InMemoryStore::new());
    let mut max_prefilled = 0;
    if let Some(r) = &cfg.prefill {
        let v = ch.a_range(*r.start(), r.end() - r.start() + 1);
        store.insert(v).await.expect("prefill");
        max_prefilled = *r.end();
    }
    let ev = VSyncEvents::new();
    let events = ev.subscribe();
    let hook = Arc::new(Mutex::new(Hook {
        chooser,
        enabled: cfg.menu.store_call_prune,
        old_upto: ch.old_upto,
        trace: vec![],
        edge_pruned: false,
    }));
    let take_chooser = |hook: &Arc<Mutex<Hook>>| std::mem::replace(&mut hook.lock().unwrap().chooser, Chooser::new(&[], false));
    let choice_store = Arc::new(ChoiceStore {
        inner: store.clone(),
        hook: hook.clone(),
    });
    let window = cfg.sampling_window();
    let syncer = match start_syncer(&p2p, choice_store, cfg.batch, window, window + Duration::from_secs(3600), &ev) {
        Ok(s) => s,
        Err(e) => {
            return (
                Exec::from_chooser(take_chooser(&hook), "start-failed", 0, vec![viol("machinery-start-failed", e.to_string())], 0),
                started.elapsed(),
            );
        }
    };
    let mut sys = Sys {
        cfg,
        ch,
        p2p,
        store,
        hook: hook.clone(),
        events,
        syncer,
        t_action: Time::now(),
        slept: false,
        started,
        pre_phase: None,
        outstanding: VecDeque::new(),
        pending_fresh: vec![],
        connected: false,
        hs_ready: false,
        stalled: false,
        net_head: cfg.init_head,
        disclosed: 0,
        max_prefilled,
        batch: None,
        prev_batch: None,
        edge_pruned: false,
        trace: vec![],
        viol: vec![],
        first_viol_event: None,
        n_events: 0,
    };
    settle().await;
    sys.observe().await;

    let mut tail = 0usize;
    let class;
    loop {
        // drop requests whose requester went away (cancelled batch)
        sys.outstanding.retain(|r| !r.tx.is_closed());
        if let Some(f) = sys.first_viol_event {
            if sys.n_events >= f + 4 {
                class = "violated";
                break;
            }
        }
        if sys.n_events >= cfg.max_events {
            class = "event-cap";
            break;
        }
        if !hook.lock().unwrap().chooser.in_prefix() {
            if tail >= cfg.tail_events {
                class = "horizon";
                break;
            }
            tail += 1;
        }
        let (stored, _) = sys.snapshot().await;
        let acts = sys.menu(&stored);
        let c = hook.lock().unwrap().chooser.choose(acts.len(), || {
            format!(
                "outstanding=[{}] connected={} header_sub={} net_head={} store=[{}] | {}",
                sys.outstanding.iter().map(|r| format!("{}+{}", r.origin, r.amount)).collect::<Vec<_>>().join(","),
                sys.connected,
                sys.hs_ready,
                sys.net_head,
                show(&stored),
                describe(&acts)
            )
        });
        let act = acts[c];
        if act == Act::Stop {
            class = if sys.stalled { "stalled" } else if sys.viol.is_empty() { "completed" } else { "violated" };
            break;
        }
        sys.n_events += 1;
        sys.t_action = Time::now();
        sys.apply(act).await;
        settle().await;
        sys.observe().await;
    }

    let (stored, pruned) = sys.snapshot().await;
    // the syncer stopped below a stored header that is older than the window (C25 non-vacuity)
    if class == "completed" && stored.iter().next().is_some_and(|lo| *lo <= ch.old_upto && *lo > 1) {
        COV_WINDOW_STOP.fetch_add(1, Ordering::Relaxed);
    }
    // C38 bounded liveness: the default (honest) continuation has stored every in-window height
    // up to the network head the syncer was told about
    if cfg.oracles.c38 && sys.viol.is_empty() {
        let missing: Vec<u64> = (ch.old_upto + 1..=sys.disclosed).filter(|h| !stored.contains(h)).collect();
        if !missing.is_empty() {
            sys.violate(
                "in-window-heights-not-stored-after-honest-continuation",
                format!(
                    "execution ended as '{class}' after {} events ({} default-only tail events allowed): heights {:?} inside the sampling window and <= head {} are not stored; stored [{}], pruned [{}]",
                    sys.n_events,
                    cfg.tail_events,
                    missing,
                    sys.disclosed,
                    show(&stored),
                    show(&pruned)
                ),
            );
        }
    }
    sys.syncer.stop();
    hook.lock().unwrap().enabled = false;
    settle().await;
    let chooser = take_chooser(&hook);

    let obs = fnv64(sys.trace.join("|").as_bytes());
    let n = sys.n_events as u64;
    let class = if !sys.viol.is_empty() { "violated" } else { class };
    let pre_phase = sys.pre_phase.unwrap_or_else(|| started.elapsed());
    (Exec::from_chooser(chooser, class, obs, sys.viol, n), pre_phase)
}

/// One complete execution under the choice sequence `prefix` (then defaults).
pub fn run_exec(cfg: &SysCfg, ch: &Chains, prefix: &[u32], keep_labels: bool) -> Exec {
    let _ = take_last_panic();
    let r = guard(|| {
        let rt = tokio::runtime::Builder::new_current_thread()
            .enable_time()
            .start_paused(true)
            .build()
            .expect("runtime");
        let Some(a) = cfg.aging else {
            let (x, _) = rt.block_on(exec_async(cfg, ch, Chooser::new(prefix, keep_labels), std::time::Instant::now()));
            drop(rt);
            return x;
        };
        drop(rt);
        // Real-time configuration: header times are relative to the start of this very
        // execution.  The execution is only meaningful (and deterministic) if everything before
        // the deliberate sleep happened while the headers were still inside the window, i.e.
        // within `inside` of real time; an attempt that was stalled longer is thrown away and
        // repeated (a stall cannot cause a false alarm, see `is_old`, but it changes what the
        // syncer does and hence the menu).
        let limit = a.inside.mul_f32(0.8);
        let mut last = None;
        for _attempt in 0..8 {
            let rt = tokio::runtime::Builder::new_current_thread()
                .enable_time()
                .start_paused(true)
                .build()
                .expect("runtime");
            let started = std::time::Instant::now();
            let owned = Chains::build_aging(cfg.total, a.window, a.inside).expect("aging fixture");
            let (x, pre) = rt.block_on(exec_async(cfg, &owned, Chooser::new(prefix, keep_labels), started));
            drop(rt);
            if pre < limit {
                return x;
            }
            COV_REALTIME_RETRIES.fetch_add(1, Ordering::Relaxed);
            last = Some(x);
        }
        let mut x = last.expect("attempted");
        x.diverged = Some(format!(
            "real-time configuration: 8 attempts in a row were stalled for more than {limit:?} of real time before the deliberate sleep; the machine is too slow/overloaded for this configuration"
        ));
        x
    });
    match r {
        Ok(mut x) => {
            // a panic inside the spawned worker task is caught by tokio; the hook recorded it
            if let Some(p) = take_last_panic() {
                x.class = "violated".into();
                x.violations.push(viol("syncer-task-panicked", p));
            }
            x
        }
        Err(p) => Exec {
            taken: prefix.to_vec(),
            arity: prefix.iter().map(|c| c + 1).collect(),
            labels: vec![],
            class: "driver-panic".into(),
            obs_key: 0,
            violations: vec![],
            diverged: Some(format!("driver panicked: {p}")),
            events: 0,
        },
    }
}

/// Explores one configuration up to `bound` deviations; violations get the configuration
/// name attached to their replay case.  Returns executions per number of deviations.
pub fn explore_cfg(cfg: &SysCfg, ch: &Chains, bound: usize, wall_cap: Duration, max_execs: u64, rep: &mut Report) -> Result<Vec<u64>, String> {
    let mut r = Report::new();
    let dc = DevConfig {
        bound,
        wall_cap,
        max_execs,
        max_deviation_pos: 0,
    };
    // executions of the real-time configuration block in real sleeps: overlap them on a pool
    // wider than the core count
    let pool = match cfg.aging {
        Some(_) => Some(rayon::ThreadPoolBuilder::new().num_threads(64).build().map_err(|e| e.to_string())?),
        None => None,
    };
    let explore = |dc: &DevConfig, rep: &mut Report| -> Result<(), String> {
        match &pool {
            Some(pool) => pool.install(|| explore_deviations(dc, |p, keep| run_exec(cfg, ch, p, keep), rep)),
            None => explore_deviations(dc, |p, keep| run_exec(cfg, ch, p, keep), rep),
        }
    };
    explore(&dc, &mut r)?;
    if !r.violations.is_empty() {
        // simplest counterexample first: re-explore with growing bounds and report the
        // executions with the fewest deviations (the parallel DFS above finds them in any order)
        for b in 0..bound {
            let mut scratch = Report::new();
            let dc = DevConfig {
                bound: b,
                wall_cap,
                max_execs,
                max_deviation_pos: 0,
            };
            explore(&dc, &mut scratch)?;
            if !scratch.violations.is_empty() {
                let keys: BTreeSet<String> = scratch.violations.iter().map(|v| v.key.clone()).collect();
                r.violations.retain(|v| !keys.contains(&v.key));
                scratch.violations.sort_by_key(|v| v.case["choices"].as_array().map(|a| a.len()).unwrap_or(0));
                scratch.violations.append(&mut r.violations);
                r.violations = scratch.violations;
                break;
            }
        }
    }
    for v in r.violations.iter_mut() {
        v.case["config"] = serde_json::json!(cfg.name);
    }
    for s in r.samples.iter_mut() {
        s["config"] = serde_json::json!(cfg.name);
    }
    let per: Vec<u64> = r
        .extras
        .remove("executions_by_deviations")
        .and_then(|v| serde_json::from_value(v).ok())
        .unwrap_or_default();
    let distinct = r.extras.remove("distinct_observation_traces").unwrap_or_default();
    r.extras.remove("deviation_bound");
    r.extra(&format!("executions_by_deviations[{}]", cfg.name), serde_json::json!(per));
    r.extra(&format!("distinct_observation_traces[{}]", cfg.name), distinct);
    r.extra(&format!("deviation_bound[{}]", cfg.name), serde_json::json!(bound));
    rep.merge_in(r);
    Ok(per)
}

/// Replays one recorded choice sequence (no explorer) and records what it shows.
pub fn replay_into(cfg: &SysCfg, ch: &Chains, choices: &[u32], rep: &mut Report) -> Result<(), String> {
    let a = run_exec(cfg, ch, choices, true);
    let b = run_exec(cfg, ch, choices, true);
    if let Some(d) = a.diverged.or(b.diverged) {
        return Err(d);
    }
    if a.obs_key != b.obs_key {
        return Err("non-deterministic replay".into());
    }
    rep.evaluations += 1;
    rep.traces += 1;
    rep.transitions += a.events;
    *rep.classes.entry(a.class.clone()).or_insert(0) += 1;
    for (k, what) in &a.violations {
        rep.violation(k, what.clone(), serde_json::json!({"config": cfg.name, "choices": a.taken, "labels": a.labels}));
    }
    Ok(())
}
