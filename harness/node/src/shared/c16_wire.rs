//! C16: a from-scratch protobuf wire model (independent of prost) used to *choose* the
//! mutations: a recursive wire-format walk that finds every field boundary of an honest
//! encoding, and a message tree that is mutated node by node and written back (so values
//! outside the range of the declared field type, which prost's typed structs cannot hold,
//! do reach the decoders).
#![allow(dead_code)]

/// The integer alphabet of the property: 0, 1, 2^31-1, 2^31, 2^32-1, 2^63-1, 2^63, 2^64-1 and a
/// negative 32-bit value sign-extended to 64 bits (i32::MIN, the form protobuf gives to
/// negative int32 / enum values).  As int64, 2^63 is i64::MIN and 2^64-1 is -1.
pub const EXTREMES: [u64; 9] = [
    0,
    1,
    (1 << 31) - 1,
    1 << 31,
    (1 << 32) - 1,
    (1 << 63) - 1,
    1 << 63,
    u64::MAX,
    0xFFFF_FFFF_8000_0000,
];

/// Repetition counts for every (repeated) field.
pub const LIST_LENS: [usize; 6] = [0, 1, 63, 64, 65, 200];

pub fn put_varint(mut v: u64, out: &mut Vec<u8>) {
    loop {
        let b = (v & 0x7f) as u8;
        v >>= 7;
        if v == 0 {
            out.push(b);
            return;
        }
        out.push(b | 0x80);
    }
}

pub fn varint(v: u64) -> Vec<u8> {
    let mut o = vec![];
    put_varint(v, &mut o);
    o
}

/// (value, bytes used); `None` on truncation or more than 10 bytes.
pub fn read_varint(b: &[u8]) -> Option<(u64, usize)> {
    let mut v = 0u64;
    for (i, x) in b.iter().enumerate().take(10) {
        v |= ((x & 0x7f) as u64) << (7 * i);
        if x & 0x80 == 0 {
            if i == 9 && *x > 1 {
                return None;
            }
            return Some((v, i + 1));
        }
    }
    None
}

#[derive(Clone, Debug, PartialEq)]
pub enum Val {
    Varint(u64),
    F64([u8; 8]),
    F32([u8; 4]),
    Bytes(Vec<u8>),
    Msg(Vec<Field>),
}

#[derive(Clone, Debug, PartialEq)]
pub struct Field {
    pub num: u64,
    pub val: Val,
}

pub fn encode_into(fields: &[Field], out: &mut Vec<u8>) {
    for f in fields {
        match &f.val {
            Val::Varint(v) => {
                put_varint(f.num << 3, out);
                put_varint(*v, out);
            }
            Val::F64(b) => {
                put_varint(f.num << 3 | 1, out);
                out.extend_from_slice(b);
            }
            Val::F32(b) => {
                put_varint(f.num << 3 | 5, out);
                out.extend_from_slice(b);
            }
            Val::Bytes(b) => {
                put_varint(f.num << 3 | 2, out);
                put_varint(b.len() as u64, out);
                out.extend_from_slice(b);
            }
            Val::Msg(m) => {
                let mut inner = vec![];
                encode_into(m, &mut inner);
                put_varint(f.num << 3 | 2, out);
                put_varint(inner.len() as u64, out);
                out.extend_from_slice(&inner);
            }
        }
    }
}

pub fn encode(fields: &[Field]) -> Vec<u8> {
    let mut o = vec![];
    encode_into(fields, &mut o);
    o
}

/// Strict parse of a whole buffer as a message; `boundaries` receives the absolute offsets of
/// every tag start, payload start and payload end.  A length-delimited payload is descended
/// into when it is non-empty, parses completely as fields numbered 1..=64 and re-encodes to
/// exactly the same bytes (so the tree of an honest encoding always writes back the honest
/// bytes).
pub fn parse(b: &[u8], base: usize, depth: u32, boundaries: &mut Vec<usize>) -> Option<Vec<Field>> {
    let mut out = vec![];
    let mut i = 0;
    while i < b.len() {
        boundaries.push(base + i);
        let (tag, n) = read_varint(&b[i..])?;
        i += n;
        let num = tag >> 3;
        if num == 0 || num > 64 {
            return None;
        }
        match tag & 7 {
            0 => {
                let (v, n) = read_varint(&b[i..])?;
                boundaries.push(base + i);
                i += n;
                out.push(Field { num, val: Val::Varint(v) });
            }
            1 => {
                let v: [u8; 8] = b.get(i..i + 8)?.try_into().ok()?;
                boundaries.push(base + i);
                i += 8;
                out.push(Field { num, val: Val::F64(v) });
            }
            5 => {
                let v: [u8; 4] = b.get(i..i + 4)?.try_into().ok()?;
                boundaries.push(base + i);
                i += 4;
                out.push(Field { num, val: Val::F32(v) });
            }
            2 => {
                let (len, n) = read_varint(&b[i..])?;
                boundaries.push(base + i);
                i += n;
                let len = usize::try_from(len).ok()?;
                let payload = b.get(i..i.checked_add(len)?)?;
                boundaries.push(base + i);
                let mut inner_b = vec![];
                let inner = if depth < 8 && !payload.is_empty() {
                    parse(payload, base + i, depth + 1, &mut inner_b).filter(|m| encode(m) == payload)
                } else {
                    None
                };
                match inner {
                    Some(m) => {
                        boundaries.extend(inner_b);
                        out.push(Field { num, val: Val::Msg(m) });
                    }
                    None => out.push(Field { num, val: Val::Bytes(payload.to_vec()) }),
                }
                i += len;
            }
            _ => return None,
        }
    }
    boundaries.push(base + b.len());
    Some(out)
}

/// The tree of `b` and its sorted, de-duplicated field boundaries.
pub fn tree_of(b: &[u8]) -> Option<(Vec<Field>, Vec<usize>)> {
    let mut bd = vec![];
    let t = parse(b, 0, 0, &mut bd)?;
    bd.sort();
    bd.dedup();
    Some((t, bd))
}

// ------------------------------------------------------------------ node addressing

/// Path of a node: child indexes from the root message.
pub type Path = Vec<usize>;

fn walk<'a>(fields: &'a [Field], prefix: &mut Path, f: &mut dyn FnMut(&Path, &'a Field)) {
    for (i, fl) in fields.iter().enumerate() {
        prefix.push(i);
        f(prefix, fl);
        if let Val::Msg(m) = &fl.val {
            walk(m, prefix, f);
        }
        prefix.pop();
    }
}

pub fn paths(tree: &[Field]) -> Vec<Path> {
    let mut out = vec![];
    walk(tree, &mut vec![], &mut |p, _| out.push(p.clone()));
    out
}

pub fn node<'a>(tree: &'a [Field], path: &[usize]) -> &'a Field {
    let f = &tree[path[0]];
    if path.len() == 1 {
        return f;
    }
    match &f.val {
        Val::Msg(m) => node(m, &path[1..]),
        _ => panic!("path through a leaf"),
    }
}

fn siblings_mut<'a>(tree: &'a mut Vec<Field>, path: &[usize]) -> &'a mut Vec<Field> {
    if path.len() == 1 {
        return tree;
    }
    match &mut tree[path[0]].val {
        Val::Msg(m) => siblings_mut(m, &path[1..]),
        _ => panic!("path through a leaf"),
    }
}

pub fn path_name(tree: &[Field], path: &[usize]) -> String {
    let mut s = String::new();
    let mut cur = tree;
    for (d, i) in path.iter().enumerate() {
        let f = &cur[*i];
        // position among the siblings with the same number
        let k = cur[..*i].iter().filter(|x| x.num == f.num).count();
        if d > 0 {
            s.push('.');
        }
        s.push_str(&format!("{}[{}]", f.num, k));
        if let Val::Msg(m) = &f.val {
            cur = m;
        }
    }
    s
}

// ------------------------------------------------------------------ single mutations

#[derive(Clone, Debug, PartialEq)]
pub enum Mut1 {
    /// varint leaf := EXTREMES[i]
    Int(Path, usize),
    /// bytes leaf: 0 empty, 1 first byte only, 2 last byte dropped, 3 one zero byte appended,
    /// 4 doubled, 5 all bytes 0x00, 6 all bytes 0xff
    Bytes(Path, usize),
    /// sub-message := empty message
    EmptyMsg(Path),
    /// field removed
    Remove(Path),
    /// the run of consecutive same-numbered siblings starting at the path is resized to
    /// LIST_LENS[i] entries (cycling through the existing ones)
    Resize(Path, usize),
    /// fixed-width leaf := all zero / all ones
    Fixed(Path, bool),
    /// a field number that the message at the path (the root for an empty path) does not
    /// carry -- e.g. a proto3 default that is not on the wire -- is appended: variants
    /// 0..9 varint EXTREMES[i], 9 empty bytes, 10 the one byte 0x01
    Insert(Path, u64, usize),
}

pub const INSERT_VARIANTS: usize = 11;
/// field numbers tried by `Insert`
pub const INSERT_MAX_NUM: u64 = 8;

fn children_mut<'a>(tree: &'a mut Vec<Field>, path: &[usize]) -> &'a mut Vec<Field> {
    if path.is_empty() {
        return tree;
    }
    match &mut tree[path[0]].val {
        Val::Msg(m) => children_mut(m, &path[1..]),
        _ => panic!("path through a leaf"),
    }
}

fn push_inserts(fields: &[Field], prefix: &Path, out: &mut Vec<Mut1>) {
    // proto3 does not write default values: the absent numbers up to two past the largest
    // one present (at most INSERT_MAX_NUM) are the candidates for such fields
    let top = fields.iter().map(|f| f.num).max().unwrap_or(0).saturating_add(2).min(INSERT_MAX_NUM);
    for num in 1..=top {
        if fields.iter().all(|f| f.num != num) {
            for v in 0..INSERT_VARIANTS {
                out.push(Mut1::Insert(prefix.clone(), num, v));
            }
        }
    }
}

pub const BYTES_OPS: usize = 7;
/// entries larger than this are not repeated (bounds the size of the mutated input)
pub const RESIZE_MAX_ENTRY: usize = 4096;

fn entry_len(f: &Field) -> usize {
    encode(std::slice::from_ref(f)).len()
}

/// Every single-node mutation of the tree, in pre-order.
pub fn single_mutations(tree: &[Field]) -> Vec<Mut1> {
    let mut out = vec![];
    let mut prefix = vec![];
    fn rec(fields: &[Field], prefix: &mut Path, out: &mut Vec<Mut1>) {
        push_inserts(fields, prefix, out);
        let mut i = 0;
        while i < fields.len() {
            // run of same-numbered siblings
            let mut j = i;
            while j < fields.len() && fields[j].num == fields[i].num {
                j += 1;
            }
            prefix.push(i);
            let biggest = fields[i..j].iter().map(entry_len).max().unwrap_or(0);
            if biggest <= RESIZE_MAX_ENTRY {
                for l in 0..LIST_LENS.len() {
                    if LIST_LENS[l] != j - i {
                        out.push(Mut1::Resize(prefix.clone(), l));
                    }
                }
            }
            prefix.pop();
            for k in i..j {
                prefix.push(k);
                let f = &fields[k];
                out.push(Mut1::Remove(prefix.clone()));
                match &f.val {
                    Val::Varint(v) => {
                        for e in 0..EXTREMES.len() {
                            if EXTREMES[e] != *v {
                                out.push(Mut1::Int(prefix.clone(), e));
                            }
                        }
                    }
                    Val::F64(_) | Val::F32(_) => {
                        out.push(Mut1::Fixed(prefix.clone(), false));
                        out.push(Mut1::Fixed(prefix.clone(), true));
                    }
                    Val::Bytes(_) => {
                        for op in 0..BYTES_OPS {
                            out.push(Mut1::Bytes(prefix.clone(), op));
                        }
                    }
                    Val::Msg(m) => {
                        out.push(Mut1::EmptyMsg(prefix.clone()));
                        rec(m, prefix, out);
                    }
                }
                prefix.pop();
            }
            i = j;
        }
    }
    rec(tree, &mut prefix, &mut out);
    out
}

/// Only the integer mutations (for the pair product): integer leaves set to an extreme and
/// absent integer fields inserted with an extreme.
pub fn int_mutations(tree: &[Field]) -> Vec<Mut1> {
    single_mutations(tree).into_iter().filter(|m| matches!(m, Mut1::Int(..)) || matches!(m, Mut1::Insert(_, _, v) if *v < 9)).collect()
}

pub fn mut_path(m: &Mut1) -> &Path {
    match m {
        Mut1::Int(p, _) | Mut1::Bytes(p, _) | Mut1::EmptyMsg(p) | Mut1::Remove(p) | Mut1::Resize(p, _) | Mut1::Fixed(p, _) | Mut1::Insert(p, _, _) => p,
    }
}

pub fn describe(tree: &[Field], m: &Mut1) -> String {
    let p = if mut_path(m).is_empty() { "root".to_string() } else { path_name(tree, mut_path(m)) };
    match m {
        Mut1::Insert(_, num, v) => format!("{p}:+field{num}#{v}"),
        Mut1::Int(_, e) => format!("{p}:=int#{e}({:#x})", EXTREMES[*e]),
        Mut1::Bytes(_, op) => format!("{p}:bytes-op{op}"),
        Mut1::EmptyMsg(_) => format!("{p}:=empty-message"),
        Mut1::Remove(_) => format!("{p}:removed"),
        Mut1::Resize(_, l) => format!("{p}:run-resized-to-{}", LIST_LENS[*l]),
        Mut1::Fixed(_, ones) => format!("{p}:fixed-all-{}", if *ones { "ones" } else { "zero" }),
    }
}

/// Applies a mutation that does not change the shape of the ancestors' child lists
/// (Int / Bytes / EmptyMsg / Fixed) in place.
fn apply_inplace(tree: &mut Vec<Field>, m: &Mut1) {
    if let Mut1::Insert(p, num, v) = m {
        let val = match v {
            0..=8 => Val::Varint(EXTREMES[*v]),
            9 => Val::Bytes(vec![]),
            _ => Val::Bytes(vec![1]),
        };
        children_mut(tree, p).push(Field { num: *num, val });
        return;
    }
    let path = mut_path(m).clone();
    let sibs = siblings_mut(tree, &path);
    let f = &mut sibs[*path.last().unwrap()];
    match m {
        Mut1::Int(_, e) => f.val = Val::Varint(EXTREMES[*e]),
        Mut1::Bytes(_, op) => {
            if let Val::Bytes(b) = &mut f.val {
                match op {
                    0 => b.clear(),
                    1 => b.truncate(1),
                    2 => {
                        b.pop();
                    }
                    3 => b.push(0),
                    4 => {
                        let c = b.clone();
                        b.extend_from_slice(&c);
                    }
                    5 => b.iter_mut().for_each(|x| *x = 0),
                    _ => b.iter_mut().for_each(|x| *x = 0xff),
                }
            }
        }
        Mut1::EmptyMsg(_) => f.val = Val::Msg(vec![]),
        Mut1::Fixed(_, ones) => {
            let fillb = if *ones { 0xff } else { 0 };
            match &mut f.val {
                Val::F64(b) => *b = [fillb; 8],
                Val::F32(b) => *b = [fillb; 4],
                _ => {}
            }
        }
        _ => unreachable!(),
    }
}

pub fn apply(tree: &[Field], m: &Mut1) -> Vec<Field> {
    let mut t = tree.to_vec();
    match m {
        Mut1::Remove(p) => {
            let sibs = siblings_mut(&mut t, p);
            sibs.remove(*p.last().unwrap());
        }
        Mut1::Resize(p, l) => {
            let sibs = siblings_mut(&mut t, p);
            let i = *p.last().unwrap();
            let mut j = i;
            while j < sibs.len() && sibs[j].num == sibs[i].num {
                j += 1;
            }
            let run: Vec<Field> = sibs[i..j].to_vec();
            let want = LIST_LENS[*l];
            let new: Vec<Field> = (0..want).map(|k| run[k % run.len()].clone()).collect();
            sibs.splice(i..j, new);
        }
        _ => apply_inplace(&mut t, m),
    }
    t
}

/// Two integer mutations at different nodes (shape preserving, so both paths stay valid).
pub fn apply_pair(tree: &[Field], a: &Mut1, b: &Mut1) -> Vec<Field> {
    let mut t = tree.to_vec();
    apply_inplace(&mut t, a);
    apply_inplace(&mut t, b);
    t
}

// ------------------------------------------------------------------ byte positions

/// Quick-tier positions of a buffer of `len` bytes: the first 256 and last 64 bytes and
/// everything within +-2 of a field boundary.
pub fn quick_positions(len: usize, boundaries: &[usize]) -> Vec<usize> {
    let mut v: Vec<usize> = (0..len.min(256)).collect();
    v.extend(len.saturating_sub(64)..len);
    for b in boundaries {
        for d in 0..5usize {
            let p = (*b + d).wrapping_sub(2);
            if p < len {
                v.push(p);
            }
        }
    }
    v.sort();
    v.dedup();
    v
}

/// The four substitutions of the property's byte alphabet.
pub fn byte_op(orig: u8, op: usize) -> u8 {
    match op {
        0 => 0x00,
        1 => 0xff,
        2 => orig ^ 0x01,
        _ => orig ^ 0x80,
    }
}
pub const BYTE_OPS: usize = 4;

/// Thorough-tier positions of an encoding longer than `BIG_INPUT`: the first 1024 and last 256
/// bytes, everything within +-8 of a field boundary, and every 64th byte.
pub const BIG_INPUT: usize = 16 * 1024;
pub fn big_positions(len: usize, boundaries: &[usize]) -> Vec<usize> {
    let mut v: Vec<usize> = (0..len.min(1024)).collect();
    v.extend(len.saturating_sub(256)..len);
    v.extend((0..len).step_by(64));
    for b in boundaries {
        for d in 0..17usize {
            let p = (*b + d).wrapping_sub(8);
            if p < len {
                v.push(p);
            }
        }
    }
    v.sort();
    v.dedup();
    v
}
