//! Shared driver of C31 / C32: the real `HeaderExClientHandler` (through
//! `lumina_node::verif::header_ex_client::VClient`) on a tokio current-thread runtime with a
//! paused clock, plus the fixtures (validated headers, encoded responses).
#![allow(dead_code)]

use celestia_proto::p2p::pb::header_request::Data;
use celestia_proto::p2p::pb::{HeaderRequest, HeaderResponse, StatusCode};
use celestia_types::ExtendedHeader;
use celestia_types::test_utils::{ExtendedHeaderGenerator, invalidate};
use lumina_node::node::{HeaderExError, P2pError};
use lumina_node::verif::header_ex_client::{VClient, VEvent, VPeer, VReply};
use std::future::Future;
use std::sync::OnceLock;
use std::task::Poll;
use std::time::Duration;
use tendermint_proto::Protobuf;
use tokio::sync::oneshot::error::TryRecvError;

// ---------------------------------------------------------------------------------------
// fixtures

pub struct Fixtures {
    /// A@10, A'@10 (other hash), B@11, C@12 — all pass `validate()`.
    pub a: ExtendedHeader,
    pub a2: ExtendedHeader,
    pub b: ExtendedHeader,
    pub c: ExtendedHeader,
    /// a header at height 10 that fails `validate()`
    pub bad: ExtendedHeader,
    /// headers 4..=8 of another chain (C32: 5 = answer of request 0, 7..=8 = answer of
    /// request 1, 4 = "wrong height" answer)
    pub low: Vec<ExtendedHeader>,
}

pub fn fixtures() -> &'static Fixtures {
    static F: OnceLock<Fixtures> = OnceLock::new();
    F.get_or_init(|| {
        let mut g = ExtendedHeaderGenerator::new_from_height(10);
        let a = g.next();
        let b = g.next();
        let c = g.next();
        let a2 = g.another_of(&a);
        let mut bad = g.another_of(&a);
        invalidate(&mut bad);
        let mut g2 = ExtendedHeaderGenerator::new_from_height(4);
        let low = g2.next_many(5);
        // the fixtures themselves are checked by the real validation: a broken generator is
        // a machinery error, not a verdict
        for h in [&a, &a2, &b, &c].into_iter().chain(low.iter()) {
            h.validate().expect("fixture header must validate");
        }
        assert!(bad.validate().is_err(), "fixture: invalidated header validates");
        assert!(a.hash() != a2.hash() && a.height() == a2.height());
        assert_eq!((a.height(), b.height(), c.height()), (10, 11, 12));
        Fixtures { a, a2, b, c, bad, low }
    })
}

pub fn ok_response(h: &ExtendedHeader) -> HeaderResponse {
    HeaderResponse {
        body: h.clone().encode_vec(),
        status_code: StatusCode::Ok.into(),
    }
}

pub fn not_found_response() -> HeaderResponse {
    HeaderResponse {
        body: vec![],
        status_code: StatusCode::NotFound.into(),
    }
}

pub fn head_request() -> HeaderRequest {
    HeaderRequest {
        data: Some(Data::Origin(0)),
        amount: 1,
    }
}

pub fn height_request(origin: u64, amount: u64) -> HeaderRequest {
    HeaderRequest {
        data: Some(Data::Origin(origin)),
        amount,
    }
}

pub fn is_head(r: &HeaderRequest) -> bool {
    matches!((&r.data, r.amount), (Some(Data::Origin(0)), 1))
}

// ---------------------------------------------------------------------------------------
// runtime

/// Runs `f` on this thread's current-thread runtime (clock paused; created on first use).
pub fn with_rt<T>(f: impl Future<Output = T>) -> T {
    thread_local! {
        static RT: tokio::runtime::Runtime = tokio::runtime::Builder::new_current_thread()
            .enable_time()
            .start_paused(true)
            .build()
            .expect("runtime");
    }
    RT.with(|rt| rt.block_on(f))
}

// ---------------------------------------------------------------------------------------
// the system

/// What a caller's channel holds right now.
#[derive(Debug, Clone, PartialEq)]
pub enum Got {
    /// nothing yet, sender alive
    Empty,
    Ok(Vec<ExtendedHeader>),
    Err(String),
    /// sender dropped without a value (must never happen: `OneshotSender` sends on drop)
    Closed,
}

pub fn err_class(e: &P2pError) -> String {
    match e {
        P2pError::HeaderEx(HeaderExError::HeaderNotFound) => "not-found".into(),
        P2pError::HeaderEx(HeaderExError::InvalidResponse) => "invalid-response".into(),
        P2pError::HeaderEx(HeaderExError::InvalidRequest) => "invalid-request".into(),
        P2pError::HeaderEx(HeaderExError::OutboundFailure(_)) => "outbound-failure".into(),
        P2pError::HeaderEx(HeaderExError::RequestCancelled) => "cancelled".into(),
        other => format!("other:{other}"),
    }
}

pub fn try_get(rx: &mut VReply) -> Got {
    match rx.try_recv() {
        Ok(Ok(v)) => Got::Ok(v),
        Ok(Err(e)) => Got::Err(err_class(&e)),
        Err(TryRecvError::Empty) => Got::Empty,
        Err(TryRecvError::Closed) => Got::Closed,
    }
}

pub struct PeerM {
    pub peer: VPeer,
    pub trusted: bool,
    /// the peer is marked archival whenever it is connected
    pub archival: bool,
    pub conn: Option<usize>,
}

pub struct Sys {
    pub client: VClient,
    pub peers: Vec<PeerM>,
    /// a `SchedulePendingRequests` event was emitted and not yet acted upon
    pub tick_due: bool,
    pub need_trusted_events: u64,
    pub need_archival_events: u64,
}

impl Sys {
    pub fn new() -> Sys {
        Sys {
            client: VClient::new(),
            peers: vec![],
            tick_due: false,
            need_trusted_events: 0,
            need_archival_events: 0,
        }
    }

    /// Adds a peer (known to the tracker, disconnected); returns its index.
    pub fn add_peer(&mut self, trusted: bool, archival: bool) -> usize {
        let peer = VPeer::random();
        if trusted {
            self.client.set_trusted(peer, true);
        }
        self.peers.push(PeerM {
            peer,
            trusted,
            archival,
            conn: None,
        });
        self.peers.len() - 1
    }

    pub fn connect(&mut self, i: usize) {
        if self.peers[i].conn.is_none() {
            let c = self.client.connect(self.peers[i].peer);
            self.peers[i].conn = Some(c);
            if self.peers[i].archival {
                self.client.mark_as_archival(self.peers[i].peer);
            }
        }
    }

    pub fn disconnect(&mut self, i: usize) {
        if let Some(c) = self.peers[i].conn.take() {
            self.client.disconnect(self.peers[i].peer, c);
        }
    }

    pub fn peer_index(&self, p: VPeer) -> Option<usize> {
        self.peers.iter().position(|m| m.peer == p)
    }

    /// Polls the handler until the whole runtime is idle (its decode tasks `yield_now`
    /// between headers): `timeout(1 ms)` on the paused clock fires only then.
    pub async fn settle(&mut self) {
        let client = &mut self.client;
        let mut evs: Vec<VEvent> = vec![];
        let _ = tokio::time::timeout(
            Duration::from_millis(1),
            std::future::poll_fn(|cx| {
                loop {
                    match client.poll(cx) {
                        Poll::Ready(ev) => evs.push(ev),
                        Poll::Pending => return Poll::<()>::Pending,
                    }
                }
            }),
        )
        .await;
        for ev in evs {
            match ev {
                VEvent::SchedulePendingRequests => self.tick_due = true,
                VEvent::NeedTrustedPeers => self.need_trusted_events += 1,
                VEvent::NeedArchivalPeers => self.need_archival_events += 1,
            }
        }
    }

    /// The schedule tick as the node performs it: 100 ms pass, the handler is polled, and
    /// `schedule_pending_requests` runs iff the handler asked for it
    /// (`Event::SchedulePendingRequests`).  Returns whether it ran.
    pub async fn tick(&mut self) -> bool {
        tokio::time::sleep(Duration::from_millis(100)).await;
        self.settle().await;
        if self.tick_due {
            self.tick_due = false;
            self.client.schedule();
            self.settle().await;
            true
        } else {
            false
        }
    }
}
