//! Shared driver of the daser family (C33, C34, and the Daser half of C35).
//!
//! System under test: the real `Daser` worker (`lumina_node::daser`, started through the
//! cfg-gated facade) over
//!   * `LogStore`: the public `Store` trait implemented around the real `InMemoryStore`;
//!     every call is forwarded; `get_stored_header_ranges`, `update_sampling_metadata` and
//!     `mark_as_sampled` are recorded in one totally ordered log.  Before such a call is
//!     recorded, everything the Daser has emitted so far (node events, `GetShwapCid`
//!     commands of the mocked `P2p`) is drained into the same log, so the log gives the
//!     exact order of "request sent" versus "metadata written" / "marked sampled";
//!   * the mocked `P2p` (`VP2p`) whose command channel and peer-tracker watch are owned by
//!     the harness.
//! It runs on a tokio current-thread runtime with the clock paused.  One execution is a
//! sequence of environment events picked by a `Chooser` (choice 0 = default: answer the
//! oldest outstanding sample request successfully); after every event the system is settled
//! (`sleep(1 ms)` on the paused clock returns only when every other task is blocked) and the
//! oracle — an independent model written from the property statements — consumes the log.
#![allow(dead_code)]

use async_trait::async_trait;
use celestia_proto::bitswap::Block;
use celestia_types::consts::appconsts::AppVersion;
use celestia_types::hash::Hash;
use celestia_types::sample::{RawSample, Sample, SampleId};
use celestia_types::test_utils::{ExtendedHeaderGenerator, generate_dummy_eds};
use celestia_types::{AxisType, DataAvailabilityHeader, ExtendedDataSquare, ExtendedHeader};
use lumina_node::block_ranges::BlockRanges;
use lumina_node::events::{EventSubscriber, NodeEvent};
use lumina_node::node::P2pError;
use lumina_node::store::{InMemoryStore, SamplingMetadata, Store, StoreError, VerifiedExtendedHeaders};
use lumina_node::verif::daser::{VDaser, VEvents, sample_cid, start_daser};
use lumina_node::verif::mock_p2p::{VCmd, VP2p};
use lv_core::*;
use prost::Message;
use serde::{Deserialize, Serialize};
use std::collections::{BTreeMap, BTreeSet, HashMap};
use std::fmt::Display;
use std::sync::{Arc, Mutex};
use std::time::Duration;
use tendermint::Time;
use tokio::sync::oneshot;

pub type Cid = cid::Cid;

pub const HOUR: u64 = 3600;
/// Sampling window given to the Daser.
pub const WINDOW: Duration = Duration::from_secs(4 * HOUR);
/// Age of the headers inside the window (>= 1 h away from both "now" and the window edge).
pub const AGE_INSIDE: Duration = Duration::from_secs(HOUR);
/// Age of the headers outside the window (2 h beyond the edge).
pub const AGE_OUTSIDE: Duration = Duration::from_secs(6 * HOUR);

// ---------------------------------------------------------------------------------------
// configuration

#[derive(Clone, Debug, Serialize, Deserialize)]
pub struct Menu {
    /// offer every outstanding request as "answer next" (else per block: oldest and newest)
    pub all_positions: bool,
    pub timeouts: bool,
    pub insert_head: bool,
    pub backfill: bool,
    pub reconnect: bool,
    /// heights the pruner may ask about (`WantToPrune`), and remove once granted
    pub prune: Vec<u64>,
    /// values for `UpdateHighestPrunableHeight`; with any value the backlog reports
    /// {0, 511, 512} are offered too
    pub report_highest: Vec<u64>,
    pub clock: bool,
    /// offer "deliver two answers before the Daser runs again": the oldest outstanding
    /// requests of two different blocks, answered back-to-back without settling in
    /// between; all ordered block pairs x {ok, timeout}^2; one choice (one deviation)
    #[serde(default)]
    pub pairs: bool,
    /// default choice = oldest request of the block with the most outstanding requests
    /// (instead of the oldest request overall), so that the default path keeps the blocks
    /// in progress level and reaches "every block has one request left"
    #[serde(default)]
    pub balanced_default: bool,
}

impl Menu {
    pub fn answers_only() -> Menu {
        Menu {
            all_positions: true,
            timeouts: true,
            insert_head: false,
            backfill: false,
            reconnect: false,
            prune: vec![],
            report_highest: vec![],
            clock: false,
            pairs: false,
            balanced_default: false,
        }
    }
}

#[derive(Clone, Debug, Serialize, Deserialize)]
pub struct Cfg {
    pub name: String,
    /// EDS width of the block at height i+1 (the fixture chain)
    pub widths: Vec<u16>,
    /// heights 1..=old carry a time older than the sampling window
    pub old: usize,
    /// ranges stored before the Daser starts (inserted in this order)
    pub initial: Vec<(u64, u64)>,
    /// heights marked as sampled before the Daser starts
    pub pre_sampled: Vec<u64>,
    pub limit: usize,
    pub allowance: usize,
    /// maximum number of environment events
    pub horizon: usize,
    pub menu: Menu,
    /// pruner reports delivered before the first peer connects
    #[serde(default)]
    pub preset_highest: Option<u64>,
    #[serde(default)]
    pub preset_backlog: u64,
}

// ---------------------------------------------------------------------------------------
// fixtures (built once per chain shape, shared by every execution)

pub struct Fixture {
    pub headers: Vec<ExtendedHeader>,
    pub edses: Vec<ExtendedDataSquare>,
    pub widths: Vec<u16>,
    pub old: usize,
    answers: Mutex<HashMap<(u64, u16, u16), Arc<Vec<u8>>>>,
}

impl Fixture {
    pub fn in_window(&self, h: u64) -> bool {
        h as usize > self.old
    }
    pub fn width(&self, h: u64) -> u16 {
        self.widths[h as usize - 1]
    }
    pub fn header(&self, h: u64) -> ExtendedHeader {
        self.headers[h as usize - 1].clone()
    }
    pub fn top(&self) -> u64 {
        self.headers.len() as u64
    }

    /// The bitswap block a peer would deliver for `cid`: a `Sample` with a row proof, checked
    /// here against the header's DAH exactly like `ShwapMultihasher` would.
    pub fn answer(&self, cid: &Cid, h: u64, row: u16, col: u16) -> Result<Arc<Vec<u8>>, String> {
        if let Some(a) = self.answers.lock().unwrap().get(&(h, row, col)) {
            return Ok(a.clone());
        }
        let eds = &self.edses[h as usize - 1];
        let sample = Sample::new(row, col, AxisType::Row, eds).map_err(|e| format!("Sample::new: {e}"))?;
        let id = SampleId::new(row, col, h).map_err(|e| format!("SampleId::new: {e}"))?;
        let raw: RawSample = sample.into();
        let container = raw.encode_to_vec();
        let back = Sample::decode(id, &container).map_err(|e| format!("fixture sample does not decode: {e}"))?;
        back.verify(id, &self.headers[h as usize - 1].dah)
            .map_err(|e| format!("fixture sample does not verify: {e}"))?;
        let block = Block {
            cid: cid.to_bytes(),
            container,
        };
        let a = Arc::new(block.encode_to_vec());
        self.answers.lock().unwrap().insert((h, row, col), a.clone());
        Ok(a)
    }
}

static FIXTURES: Mutex<Option<HashMap<String, Arc<Fixture>>>> = Mutex::new(None);

pub fn fixture(widths: &[u16], old: usize) -> Arc<Fixture> {
    let key = format!("{widths:?}/{old}");
    let mut g = FIXTURES.lock().unwrap();
    let map = g.get_or_insert_with(HashMap::new);
    if let Some(f) = map.get(&key) {
        return f.clone();
    }
    let now = Time::now();
    let mut generator = ExtendedHeaderGenerator::new();
    let mut headers = vec![];
    let mut edses = vec![];
    for (i, w) in widths.iter().enumerate() {
        if i == 0 && old > 0 {
            generator.set_time((now - AGE_OUTSIDE).unwrap(), Duration::from_secs(1));
        }
        if i == old {
            generator.set_time((now - AGE_INSIDE).unwrap(), Duration::from_secs(1));
        }
        let eds = generate_dummy_eds(*w as usize, AppVersion::V2);
        let dah = DataAvailabilityHeader::from_eds(&eds);
        let header = generator.next_with_dah(dah);
        assert_eq!(header.height(), i as u64 + 1);
        assert_eq!(header.square_width(), *w);
        headers.push(header);
        edses.push(eds);
    }
    let f = Arc::new(Fixture {
        headers,
        edses,
        widths: widths.to_vec(),
        old,
        answers: Mutex::new(HashMap::new()),
    });
    map.insert(key, f.clone());
    f
}

// ---------------------------------------------------------------------------------------
// the unified log and the logging store

#[derive(Debug)]
pub enum Entry {
    /// `Store::get_stored_header_ranges` and what the Daser was told
    GetStored(BTreeSet<u64>),
    /// `Store::update_sampling_metadata(h, cids)` and whether the store accepted it
    UpdateMeta(u64, Vec<Cid>, bool),
    /// `Store::mark_as_sampled(h)` and whether the store accepted it
    MarkSampled(u64, bool),
    Event(NodeEvent),
    /// a `GetShwapCid` command; `meta` = the store's sampling metadata of the requested
    /// height read when the command was taken out of the channel (no store write can lie
    /// between the send and that read, see module doc)
    Request {
        serial: u64,
        cid: Cid,
        sample: Option<(u64, u16, u16)>,
        meta: Option<Vec<Cid>>,
    },
    OtherCmd(String),
}

pub struct Outstanding {
    pub serial: u64,
    pub cid: Cid,
    pub h: u64,
    pub row: u16,
    pub col: u16,
    pub respond_to: oneshot::Sender<Result<Vec<u8>, P2pError>>,
}

pub struct Hub {
    pub p2p: VP2p,
    pub sub: EventSubscriber,
    pub log: Vec<Entry>,
    pub outstanding: Vec<Outstanding>,
    pub next_serial: u64,
}

pub struct LogStore {
    pub inner: InMemoryStore,
    pub hub: Arc<Mutex<Hub>>,
}

impl std::fmt::Debug for LogStore {
    fn fmt(&self, f: &mut std::fmt::Formatter<'_>) -> std::fmt::Result {
        f.write_str("LogStore")
    }
}

fn ranges_to_set(r: &BlockRanges) -> BTreeSet<u64> {
    let mut s = BTreeSet::new();
    for range in AsRef::<[std::ops::RangeInclusive<u64>]>::as_ref(r) {
        for h in range.clone() {
            s.insert(h);
        }
    }
    s
}

impl LogStore {
    /// Moves everything the Daser has emitted so far into the log; returns how many
    /// commands were taken out of the P2p command channel.
    pub async fn flush(&self) -> usize {
        let mut cmds = vec![];
        {
            let mut hub = self.hub.lock().unwrap();
            while let Ok(info) = hub.sub.try_recv() {
                hub.log.push(Entry::Event(info.event));
            }
            while let Some(cmd) = hub.p2p.try_next_cmd() {
                cmds.push(cmd);
            }
        }
        let n = cmds.len();
        for cmd in cmds {
            match cmd {
                VCmd::GetShwapCid { cid, respond_to } => {
                    let id: Option<SampleId> = SampleId::try_from(&cid).ok();
                    let sample = id.map(|id| (id.block_height(), id.row_index(), id.column_index()));
                    let meta = match sample {
                        Some((h, _, _)) => match self.inner.get_sampling_metadata(h).await {
                            Ok(Some(m)) => Some(m.cids),
                            _ => None,
                        },
                        None => None,
                    };
                    let mut hub = self.hub.lock().unwrap();
                    let serial = hub.next_serial;
                    hub.next_serial += 1;
                    hub.log.push(Entry::Request {
                        serial,
                        cid,
                        sample,
                        meta,
                    });
                    if let Some((h, row, col)) = sample {
                        hub.outstanding.push(Outstanding {
                            serial,
                            cid,
                            h,
                            row,
                            col,
                            respond_to,
                        });
                    }
                }
                other => {
                    self.hub.lock().unwrap().log.push(Entry::OtherCmd(format!("{other:?}")));
                }
            }
        }
        n
    }
}

mod libp2p_identity_alias {
    pub use libp2p_identity::Keypair;
}

#[async_trait]
impl Store for LogStore {
    async fn get_head(&self) -> Result<ExtendedHeader, StoreError> {
        self.inner.get_head().await
    }
    async fn get_by_hash(&self, hash: &Hash) -> Result<ExtendedHeader, StoreError> {
        self.inner.get_by_hash(hash).await
    }
    async fn get_by_height(&self, height: u64) -> Result<ExtendedHeader, StoreError> {
        self.inner.get_by_height(height).await
    }
    async fn wait_new_head(&self) -> u64 {
        self.inner.wait_new_head().await
    }
    async fn wait_height(&self, height: u64) -> Result<(), StoreError> {
        self.inner.wait_height(height).await
    }
    async fn head_height(&self) -> Result<u64, StoreError> {
        self.inner.head_height().await
    }
    async fn has(&self, hash: &Hash) -> bool {
        self.inner.has(hash).await
    }
    async fn has_at(&self, height: u64) -> bool {
        self.inner.has_at(height).await
    }
    async fn update_sampling_metadata(&self, height: u64, cids: Vec<Cid>) -> Result<(), StoreError> {
        self.flush().await;
        let r = self.inner.update_sampling_metadata(height, cids.clone()).await;
        self.hub.lock().unwrap().log.push(Entry::UpdateMeta(height, cids, r.is_ok()));
        r
    }
    async fn get_sampling_metadata(&self, height: u64) -> Result<Option<SamplingMetadata>, StoreError> {
        self.inner.get_sampling_metadata(height).await
    }
    async fn mark_as_sampled(&self, height: u64) -> Result<(), StoreError> {
        self.flush().await;
        let r = self.inner.mark_as_sampled(height).await;
        self.hub.lock().unwrap().log.push(Entry::MarkSampled(height, r.is_ok()));
        r
    }
    async fn insert<R>(&self, headers: R) -> Result<(), StoreError>
    where
        R: TryInto<VerifiedExtendedHeaders> + Send,
        <R as TryInto<VerifiedExtendedHeaders>>::Error: Display,
    {
        self.inner.insert(headers).await
    }
    async fn get_stored_header_ranges(&self) -> Result<BlockRanges, StoreError> {
        self.flush().await;
        let r = self.inner.get_stored_header_ranges().await;
        if let Ok(ranges) = &r {
            self.hub.lock().unwrap().log.push(Entry::GetStored(ranges_to_set(ranges)));
        }
        r
    }
    async fn get_sampled_ranges(&self) -> Result<BlockRanges, StoreError> {
        self.inner.get_sampled_ranges().await
    }
    async fn get_pruned_ranges(&self) -> Result<BlockRanges, StoreError> {
        self.inner.get_pruned_ranges().await
    }
    async fn remove_height(&self, height: u64) -> Result<(), StoreError> {
        self.inner.remove_height(height).await
    }
    async fn get_identity(&self) -> Result<libp2p_identity_alias::Keypair, StoreError> {
        self.inner.get_identity().await
    }
    async fn close(self) -> Result<(), StoreError> {
        self.inner.close().await
    }
}

// ---------------------------------------------------------------------------------------
// environment events

#[derive(Clone, Debug, PartialEq, Eq, Serialize, Deserialize)]
pub enum Op {
    /// answer the k-th outstanding sample request (arrival order) with a valid sample
    AnswerOk(usize),
    /// answer it with `P2pError::RequestTimedOut`
    AnswerTimeout(usize),
    /// answer outstanding request `.0` and then `.2` (of another block) back-to-back, the
    /// Daser task does not run in between; `.1` / `.3`: valid sample (true) or timeout
    AnswerPair(usize, bool, usize, bool),
    /// insert the next header above the stored head (wakes `wait_new_head`)
    InsertHead,
    /// insert the header just below the newest stored range (backward sync)
    Backfill,
    Disconnect,
    Reconnect,
    WantToPrune(u64),
    /// the pruner removes a height it was granted
    Remove(u64),
    ReportHighest(u64),
    ReportBacklog(u64),
    /// 61 s: the report interval fires, no request times out
    AdvanceSmall,
    /// 5 h: every pending request runs into its own (>= 10 s, <= window) timeout
    AdvanceBig,
    Stop,
}

// ---------------------------------------------------------------------------------------
// the oracle: an independent model of what the statements of C33 / C34 / C35 (Daser half)
// allow, fed by the log

#[derive(Clone, Debug)]
pub struct Viol {
    /// property the violated sentence belongs to ("C33" | "C34" | "C35")
    pub prop: &'static str,
    pub key: &'static str,
    pub what: String,
}

#[derive(Debug, Default)]
struct Round {
    h: u64,
    /// shares announced in `SamplingStarted`
    chosen: Option<Vec<(u16, u16)>>,
    requested: Vec<(u16, u16)>,
    ok: BTreeSet<(u16, u16)>,
    timed_out: BTreeSet<(u16, u16)>,
    finished: bool,
}

pub struct Model {
    fx: Arc<Fixture>,
    limit: usize,
    allowance: usize,
    pub stored: BTreeSet<u64>,
    pub removed: BTreeSet<u64>,
    pub connected: bool,
    /// what the last `get_stored_header_ranges` told the Daser
    known: BTreeSet<u64>,
    /// pre-sampled + heights the Daser marked
    sampled: BTreeSet<u64>,
    rounds: Vec<Round>,
    /// height -> index of its unfinished round
    inprog: BTreeMap<u64, usize>,
    /// height -> index of its last finished round
    last_finished: BTreeMap<u64, usize>,
    timed_out: BTreeSet<u64>,
    pub promised: BTreeSet<u64>,
    pub reported_highest: Option<u64>,
    pub reported_backlog: u64,
    /// heights that had a fully successful round (every chosen share answered with a valid sample)
    fully_sampled: BTreeSet<u64>,
    pre_sampled: BTreeSet<u64>,
    pub viols: Vec<Viol>,
    pub obs: Vec<String>,
    pub stats: BTreeMap<&'static str, u64>,
    pub fatal: Option<String>,
}

fn expected_samples(w: u16) -> usize {
    (w as usize * w as usize).min(16)
}

impl Model {
    fn new(cfg: &Cfg, fx: Arc<Fixture>) -> Model {
        Model {
            fx,
            limit: cfg.limit,
            allowance: cfg.allowance,
            stored: BTreeSet::new(),
            removed: BTreeSet::new(),
            connected: false,
            known: BTreeSet::new(),
            sampled: cfg.pre_sampled.iter().copied().collect(),
            rounds: vec![],
            inprog: BTreeMap::new(),
            last_finished: BTreeMap::new(),
            timed_out: BTreeSet::new(),
            promised: BTreeSet::new(),
            reported_highest: None,
            reported_backlog: 0,
            fully_sampled: BTreeSet::new(),
            pre_sampled: cfg.pre_sampled.iter().copied().collect(),
            viols: vec![],
            obs: vec![],
            stats: BTreeMap::new(),
            fatal: None,
        }
    }

    fn stat(&mut self, k: &'static str) {
        *self.stats.entry(k).or_insert(0) += 1;
    }

    fn viol(&mut self, prop: &'static str, key: &'static str, what: String) {
        self.viols.push(Viol { prop, key, what });
    }

    pub fn in_progress(&self, h: u64) -> bool {
        self.inprog.contains_key(&h)
    }

    /// Heights the statement of C34 allows to be started now.
    fn eligible(&self) -> BTreeSet<u64> {
        self.known
            .iter()
            .copied()
            .filter(|h| {
                self.stored.contains(h)
                    && !self.sampled.contains(h)
                    && !self.inprog.contains_key(h)
                    && !self.promised.contains(h)
                    && !self.timed_out.contains(h)
            })
            .collect()
    }

    fn on_start(&mut self, h: u64, accepted: bool) {
        if !accepted {
            self.obs.push(format!("meta-refused {h}"));
            return;
        }
        let count = self.inprog.len();
        let newest = self.stored.iter().next_back().copied();
        let is_newest = newest == Some(h);
        self.obs.push(format!("start {h} inprog={count}"));
        self.stat("block-started");

        // ---- C34: concurrency
        if count < self.limit {
            self.stat(if is_newest { "start:newest-under-limit" } else { "start:under-limit" });
        } else if is_newest && count < self.limit + self.allowance {
            self.stat("start:newest-on-allowance");
        } else {
            self.viol(
                "C34",
                "started-over-concurrency-limit",
                format!(
                    "height {h} started with {count} blocks in progress; limit {} allowance {} newest stored {:?}",
                    self.limit, self.allowance, newest
                ),
            );
        }
        // ---- C34: which block
        let eligible = self.eligible();
        if !self.stored.contains(&h) {
            self.viol("C34", "started-block-not-stored", format!("height {h} is not stored"));
        }
        if self.inprog.contains_key(&h) {
            self.viol("C34", "started-block-already-in-progress", format!("height {h} is already being sampled"));
        }
        if self.sampled.contains(&h) {
            self.viol("C34", "started-sampled-block", format!("height {h} is already marked sampled"));
        }
        if self.timed_out.contains(&h) {
            self.viol(
                "C34",
                "restarted-timed-out-block-without-reconnection",
                format!("height {h} timed out since the last reconnection and was started again"),
            );
        }
        if self.promised.contains(&h) {
            self.viol(
                "C35",
                "started-block-promised-to-pruner",
                format!("height {h} was granted to the pruner (WantToPrune -> true) and sampling of it started afterwards"),
            );
        }
        if !self.fx.in_window(h) {
            self.viol(
                "C34",
                "started-block-outside-sampling-window",
                format!("height {h} is {}s old, sampling window {}s", AGE_OUTSIDE.as_secs(), WINDOW.as_secs()),
            );
        }
        if self.reported_backlog >= PRUNER_THRESHOLD_ORACLE && self.reported_highest.is_some_and(|p| h <= p) {
            self.viol(
                "C34",
                "started-prunable-block-despite-backlog",
                format!(
                    "height {h} <= highest prunable {:?} started while the pruner reports a backlog of {}",
                    self.reported_highest, self.reported_backlog
                ),
            );
        }
        if let Some(better) = eligible.iter().rev().find(|e| **e > h && self.fx.in_window(**e)) {
            self.viol(
                "C34",
                "started-block-is-not-highest-eligible",
                format!("height {h} started although {better} is known, stored, unsampled, not in progress, not promised and not timed out"),
            );
        }
        // ---- bookkeeping
        let idx = self.rounds.len();
        self.rounds.push(Round {
            h,
            ..Default::default()
        });
        self.inprog.insert(h, idx);
    }

    fn cids_of(&mut self, h: u64, shares: &[(u16, u16)]) -> Vec<Cid> {
        let mut v = vec![];
        for (r, c) in shares {
            match sample_cid(*r, *c, h) {
                Ok(cid) => v.push(cid),
                Err(e) => self.fatal = Some(format!("sample_cid({r},{c},{h}): {e}")),
            }
        }
        v
    }

    fn on_entry(&mut self, e: Entry) {
        match e {
            Entry::GetStored(set) => {
                self.known = set;
            }
            Entry::UpdateMeta(h, _cids, ok) => self.on_start(h, ok),
            Entry::MarkSampled(h, ok) => {
                self.obs.push(format!("mark {h} {ok}"));
                self.stat("block-marked-sampled");
                // ---- C33: only after every chosen share was retrieved
                let idx = self.inprog.get(&h).or_else(|| self.last_finished.get(&h)).copied();
                match idx {
                    None => self.viol(
                        "C33",
                        "marked-sampled-without-sampling",
                        format!("height {h} marked as sampled but no sampling of it was started"),
                    ),
                    Some(i) => {
                        let r = &self.rounds[i];
                        let want = expected_samples(self.fx.width(h));
                        let chosen: BTreeSet<(u16, u16)> = r.chosen.clone().unwrap_or_default().into_iter().collect();
                        let missing: Vec<_> = chosen.iter().filter(|s| !r.ok.contains(s)).collect();
                        if chosen.len() != want || !missing.is_empty() || !r.timed_out.is_empty() {
                            let what = format!(
                                "height {h} marked as sampled: {} shares chosen (need {want}), {} answered with a valid sample, {} timed out, unanswered/failed {:?}",
                                chosen.len(),
                                r.ok.len(),
                                r.timed_out.len(),
                                missing
                            );
                            self.viol("C33", "marked-sampled-without-full-success", what);
                        }
                    }
                }
                if ok {
                    self.sampled.insert(h);
                }
            }
            Entry::Event(ev) => match ev {
                NodeEvent::SamplingStarted {
                    height,
                    square_width,
                    shares,
                } => {
                    self.obs.push(format!("event-started {height} w={square_width} n={}", shares.len()));
                    let w = self.fx.width(height);
                    let set: BTreeSet<(u16, u16)> = shares.iter().copied().collect();
                    if set.len() != shares.len() {
                        self.viol("C33", "chosen-shares-not-distinct", format!("height {height}: {shares:?}"));
                    }
                    if let Some(bad) = shares.iter().find(|(r, c)| *r >= w || *c >= w) {
                        self.viol(
                            "C33",
                            "chosen-share-outside-square",
                            format!("height {height} width {w}: share {bad:?}"),
                        );
                    }
                    if set.len() != expected_samples(w) {
                        self.viol(
                            "C33",
                            "chosen-shares-wrong-count",
                            format!("height {height} width {w}: {} distinct shares chosen, expected {}", set.len(), expected_samples(w)),
                        );
                    }
                    self.stat(if (w as usize).pow(2) <= 16 { "chosen:whole-square" } else { "chosen:16-of-many" });
                    match self.inprog.get(&height).copied() {
                        Some(i) => self.rounds[i].chosen = Some(shares),
                        None => {
                            // sampling announced before the store heard of it
                            self.viol(
                                "C33",
                                "sampling-started-before-metadata-recorded",
                                format!("SamplingStarted({height}) without a preceding update_sampling_metadata"),
                            );
                            let idx = self.rounds.len();
                            self.rounds.push(Round {
                                h: height,
                                chosen: Some(shares),
                                ..Default::default()
                            });
                            self.inprog.insert(height, idx);
                        }
                    }
                }
                NodeEvent::ShareSamplingResult { .. } => {}
                NodeEvent::SamplingResult { height, timed_out, .. } => {
                    self.obs.push(format!("finish {height} timed_out={timed_out}"));
                    self.stat(if timed_out { "block-timed-out" } else { "block-all-shares-ok" });
                    if let Some(i) = self.inprog.remove(&height) {
                        self.rounds[i].finished = true;
                        self.last_finished.insert(height, i);
                    }
                    if timed_out {
                        self.timed_out.insert(height);
                    }
                }
                NodeEvent::FatalDaserError { error } => {
                    self.obs.push("fatal".into());
                    self.fatal = Some(error);
                }
                _ => {}
            },
            Entry::Request { cid, sample, meta, .. } => {
                let Some((h, row, col)) = sample else {
                    self.fatal = Some(format!("GetShwapCid for a cid that is not a sample id: {cid}"));
                    return;
                };
                self.obs.push(format!("request {h}"));
                self.stat("sample-requested");
                let mut need = vec![(row, col)];
                match self.inprog.get(&h).copied() {
                    Some(i) => {
                        if let Some(ch) = self.rounds[i].chosen.clone() {
                            if !ch.contains(&(row, col)) {
                                let what = format!("height {h}: share ({row},{col}) requested, chosen {ch:?}");
                                self.viol("C33", "requested-share-not-chosen", what);
                            }
                            need.extend(ch.iter().copied());
                        }
                        self.rounds[i].requested.push((row, col));
                    }
                    None => {}
                }
                // ---- C33: metadata of ALL chosen shares recorded before ANY is requested
                let have: BTreeSet<Cid> = meta.unwrap_or_default().into_iter().collect();
                need.sort();
                need.dedup();
                let need_cids = self.cids_of(h, &need);
                let missing = need_cids.iter().filter(|c| !have.contains(c)).count();
                if missing > 0 {
                    self.viol(
                        "C33",
                        "sample-requested-before-metadata-recorded",
                        format!(
                            "height {h}: share ({row},{col}) requested while the sampling metadata holds {} CIDs and misses {missing} of the {} chosen shares",
                            have.len(),
                            need_cids.len()
                        ),
                    );
                }
            }
            Entry::OtherCmd(c) => {
                self.fatal = Some(format!("unexpected P2p command from the Daser: {c}"));
            }
        }
    }
}

/// The oracle's own copy of the threshold in the statement ("a backlog of at least 512").
const PRUNER_THRESHOLD_ORACLE: u64 = 512;

// ---------------------------------------------------------------------------------------
// one execution

pub struct RunOut {
    pub class: String,
    pub viols: Vec<Viol>,
    pub obs_key: u64,
    pub events: u64,
    pub stats: BTreeMap<&'static str, u64>,
    pub machinery: Option<String>,
}

struct Sys {
    cfg: Cfg,
    fx: Arc<Fixture>,
    store: Arc<LogStore>,
    hub: Arc<Mutex<Hub>>,
    daser: VDaser,
    m: Model,
    used_small_advance: bool,
}

impl Sys {
    /// settle, then feed the oracle
    async fn settle(&mut self) {
        // The P2p command channel holds 16 commands: a Daser blocked on a full channel is
        // not quiescent, so drain and settle again until nothing more arrives.
        for _ in 0..256 {
            tokio::time::sleep(Duration::from_millis(1)).await;
            if self.store.flush().await == 0 {
                break;
            }
        }
        let entries: Vec<Entry> = std::mem::take(&mut self.hub.lock().unwrap().log);
        for e in entries {
            self.m.on_entry(e);
        }
        // every started block must have announced its shares by now (else the share checks are vacuous)
        if let Some(h) = self.m.inprog.iter().find(|(_, i)| self.m.rounds[**i].chosen.is_none()).map(|(h, _)| *h) {
            self.m.fatal.get_or_insert_with(|| format!("block {h} started (metadata recorded) but no SamplingStarted event at quiescence"));
        }
        // requests whose asker is gone (block cancelled by a disconnection, or timed out in p2p)
        self.hub.lock().unwrap().outstanding.retain(|o| !o.respond_to.is_closed());
        // ---- C33: the store's sampled set only holds heights with a fully successful sampling
        if let Ok(s) = self.store.inner.get_sampled_ranges().await {
            for h in ranges_to_set(&s) {
                if !self.m.pre_sampled.contains(&h) && !self.m.fully_sampled.contains(&h) {
                    self.m.viol(
                        "C33",
                        "sampled-range-holds-block-without-full-success",
                        format!("get_sampled_ranges contains {h} but not every chosen share of it was answered with a valid sample"),
                    );
                }
            }
        }
    }

    fn outstanding_len(&self) -> usize {
        self.hub.lock().unwrap().outstanding.len()
    }

    fn can_insert_head(&self) -> Option<u64> {
        let next = self.m.stored.iter().next_back().map(|h| h + 1).unwrap_or(1);
        (next <= self.fx.top() && !self.m.removed.contains(&next)).then_some(next)
    }

    fn can_backfill(&self) -> Option<u64> {
        // lowest height of the newest stored range
        let mut lo = *self.m.stored.iter().next_back()?;
        while lo > 1 && self.m.stored.contains(&(lo - 1)) {
            lo -= 1;
        }
        (lo > 1 && !self.m.removed.contains(&(lo - 1))).then_some(lo - 1)
    }

    fn menu(&self) -> Vec<Op> {
        let menu = &self.cfg.menu;
        let n_out = self.outstanding_len();
        let mut ops = vec![];
        // oldest outstanding request of every block in progress, in arrival order
        let firsts: Vec<(u64, usize, usize)> = {
            let hub = self.hub.lock().unwrap();
            let mut f: Vec<(u64, usize, usize)> = vec![];
            for (i, o) in hub.outstanding.iter().enumerate() {
                match f.iter_mut().find(|x| x.0 == o.h) {
                    Some(x) => x.2 += 1,
                    None => f.push((o.h, i, 1)),
                }
            }
            f
        };
        let default = if !self.m.connected {
            Op::Reconnect
        } else if n_out > 0 {
            if menu.balanced_default {
                let most = firsts.iter().map(|x| x.2).max().unwrap_or(0);
                Op::AnswerOk(firsts.iter().find(|x| x.2 == most).map(|x| x.1).unwrap_or(0))
            } else {
                Op::AnswerOk(0)
            }
        } else if self.can_insert_head().is_some() {
            Op::InsertHead
        } else {
            Op::Stop
        };
        ops.push(default.clone());
        if self.m.connected && n_out > 0 {
            let positions: Vec<usize> = if menu.all_positions {
                (0..n_out).collect()
            } else {
                // per block in progress: its oldest and its newest outstanding request
                let hub = self.hub.lock().unwrap();
                let mut first: BTreeMap<u64, usize> = BTreeMap::new();
                let mut last: BTreeMap<u64, usize> = BTreeMap::new();
                for (i, o) in hub.outstanding.iter().enumerate() {
                    first.entry(o.h).or_insert(i);
                    last.insert(o.h, i);
                }
                let mut p: Vec<usize> = first.values().chain(last.values()).copied().collect();
                p.sort();
                p.dedup();
                p
            };
            for p in positions {
                if Op::AnswerOk(p) != default {
                    ops.push(Op::AnswerOk(p));
                }
                if menu.timeouts {
                    ops.push(Op::AnswerTimeout(p));
                }
            }
            if menu.pairs {
                for a in &firsts {
                    for b in &firsts {
                        if a.0 == b.0 {
                            continue;
                        }
                        for (oa, ob) in [(true, false), (false, true), (true, true), (false, false)] {
                            ops.push(Op::AnswerPair(a.1, oa, b.1, ob));
                        }
                    }
                }
            }
        }
        if menu.insert_head && self.can_insert_head().is_some() && default != Op::InsertHead {
            ops.push(Op::InsertHead);
        }
        if menu.backfill && self.can_backfill().is_some() {
            ops.push(Op::Backfill);
        }
        if menu.reconnect && self.m.connected {
            ops.push(Op::Disconnect);
        }
        for h in &menu.prune {
            if self.m.stored.contains(h) && !self.m.promised.contains(h) {
                ops.push(Op::WantToPrune(*h));
            }
        }
        for h in &self.m.promised {
            if self.m.stored.contains(h) && menu.prune.contains(h) {
                ops.push(Op::Remove(*h));
            }
        }
        if !menu.report_highest.is_empty() {
            for v in &menu.report_highest {
                if self.m.reported_highest != Some(*v) {
                    ops.push(Op::ReportHighest(*v));
                }
            }
            for b in [512u64, 511, 0] {
                if self.m.reported_backlog != b {
                    ops.push(Op::ReportBacklog(b));
                }
            }
        }
        if menu.clock && self.m.connected {
            if !self.used_small_advance {
                ops.push(Op::AdvanceSmall);
            }
            if n_out > 0 {
                ops.push(Op::AdvanceBig);
            }
        }
        ops
    }

    /// Delivers one answer (synchronously: a oneshot send) and tells the model.
    fn answer(&mut self, o: Outstanding, ok: bool) -> Result<(), String> {
        let answer = if ok {
            Ok(self.fx.answer(&o.cid, o.h, o.row, o.col)?.as_ref().clone())
        } else {
            Err(P2pError::RequestTimedOut)
        };
        if o.respond_to.send(answer).is_ok() {
            if let Some(i) = self.m.inprog.get(&o.h).copied() {
                let r = &mut self.m.rounds[i];
                if ok {
                    r.ok.insert((o.row, o.col));
                    // every chosen share retrieved?
                    if let Some(ch) = &r.chosen {
                        if r.timed_out.is_empty()
                            && ch.len() == expected_samples(self.fx.width(o.h))
                            && ch.iter().all(|s| r.ok.contains(s))
                        {
                            self.m.fully_sampled.insert(o.h);
                        }
                    }
                } else {
                    r.timed_out.insert((o.row, o.col));
                }
            }
        }
        Ok(())
    }

    async fn apply(&mut self, op: &Op) -> Result<(), String> {
        match op {
            Op::AnswerPair(i, oi, j, oj) => {
                // take both out first (indices refer to the list as offered), then deliver
                // them without letting any other task run in between
                let (a, b) = {
                    let mut hub = self.hub.lock().unwrap();
                    if *i >= hub.outstanding.len() || *j >= hub.outstanding.len() || i == j {
                        return Err(format!("no outstanding requests {i},{j}"));
                    }
                    if i > j {
                        let a = hub.outstanding.remove(*i);
                        let b = hub.outstanding.remove(*j);
                        (a, b)
                    } else {
                        let b = hub.outstanding.remove(*j);
                        let a = hub.outstanding.remove(*i);
                        (a, b)
                    }
                };
                self.answer(a, *oi)?;
                self.answer(b, *oj)?;
            }
            Op::AnswerOk(k) | Op::AnswerTimeout(k) => {
                let o = {
                    let mut hub = self.hub.lock().unwrap();
                    if *k >= hub.outstanding.len() {
                        return Err(format!("no outstanding request {k}"));
                    }
                    hub.outstanding.remove(*k)
                };
                let ok = matches!(op, Op::AnswerOk(_));
                self.answer(o, ok)?;
            }
            Op::InsertHead => {
                let h = self.can_insert_head().ok_or("no head to insert")?;
                self.store
                    .inner
                    .insert(self.fx.header(h))
                    .await
                    .map_err(|e| format!("insert head {h}: {e}"))?;
                self.m.stored.insert(h);
            }
            Op::Backfill => {
                let h = self.can_backfill().ok_or("nothing to backfill")?;
                self.store
                    .inner
                    .insert(self.fx.header(h))
                    .await
                    .map_err(|e| format!("backfill {h}: {e}"))?;
                self.m.stored.insert(h);
            }
            Op::Disconnect => {
                self.hub.lock().unwrap().p2p.set_peers(0, 0);
                self.m.connected = false;
                // the statement's "since the last reconnection", and nothing is in progress
                // once the sampler has lost every peer
                self.m.timed_out.clear();
                let cancelled: Vec<(u64, usize)> = self.m.inprog.iter().map(|(h, i)| (*h, *i)).collect();
                for (h, i) in cancelled {
                    self.m.rounds[i].finished = true;
                    self.m.obs.push(format!("cancel {h}"));
                }
                self.m.inprog.clear();
            }
            Op::Reconnect => {
                self.hub.lock().unwrap().p2p.set_peers(1, 0);
                self.m.connected = true;
            }
            Op::WantToPrune(h) => {
                let busy = self.m.in_progress(*h);
                let ans = self.daser.want_to_prune(*h).await.map_err(|e| format!("want_to_prune: {e}"))?;
                self.m.obs.push(format!("want-to-prune {h} -> {ans}"));
                self.m.stat(if ans { "prune-granted" } else { "prune-refused" });
                if ans && busy {
                    self.m.viol(
                        "C35",
                        "prune-granted-while-sampling-in-progress",
                        format!("WantToPrune({h}) answered true while the sampling of {h} has started and not finished"),
                    );
                }
                if ans {
                    self.m.promised.insert(*h);
                }
            }
            Op::Remove(h) => {
                self.store
                    .inner
                    .remove_height(*h)
                    .await
                    .map_err(|e| format!("remove {h}: {e}"))?;
                self.m.stored.remove(h);
                self.m.removed.insert(*h);
                self.m.sampled.remove(h);
            }
            Op::ReportHighest(v) => {
                self.daser.update_highest_prunable_block(*v).await?;
                self.m.reported_highest = Some(*v);
            }
            Op::ReportBacklog(v) => {
                self.daser.update_number_of_prunable_blocks(*v).await?;
                self.m.reported_backlog = *v;
            }
            Op::AdvanceSmall => {
                self.used_small_advance = true;
                tokio::time::sleep(Duration::from_secs(61)).await;
            }
            Op::AdvanceBig => {
                // every pending request runs into the timeout of `P2p::get_shwap_cid`
                {
                    let hub = self.hub.lock().unwrap();
                    for o in &hub.outstanding {
                        if let Some(i) = self.m.inprog.get(&o.h).copied() {
                            self.m.rounds[i].timed_out.insert((o.row, o.col));
                        }
                    }
                }
                tokio::time::sleep(Duration::from_secs(5 * HOUR)).await;
            }
            Op::Stop => {}
        }
        Ok(())
    }
}

async fn run_async(cfg: &Cfg, ch: &mut Chooser) -> RunOut {
    let fx = fixture(&cfg.widths, cfg.old);
    let events = VEvents::new();
    let sub = events.subscribe();
    let hub = Arc::new(Mutex::new(Hub {
        p2p: VP2p::new(),
        sub,
        log: vec![],
        outstanding: vec![],
        next_serial: 0,
    }));
    let store = Arc::new(LogStore {
        inner: InMemoryStore::new(),
        hub: hub.clone(),
    });
    let mut m = Model::new(cfg, fx.clone());
    let mut machinery = None;
    for (a, b) in &cfg.initial {
        let hs: Vec<ExtendedHeader> = (*a..=*b).map(|h| fx.header(h)).collect();
        // SAFETY (contract of the type): one adjacent chain straight out of the repo's generator
        let v = unsafe { VerifiedExtendedHeaders::new_unchecked(hs) };
        if let Err(e) = store.inner.insert(v).await {
            machinery = Some(format!("initial insert {a}..={b}: {e}"));
        }
        m.stored.extend(*a..=*b);
    }
    for h in &cfg.pre_sampled {
        if let Err(e) = store.inner.mark_as_sampled(*h).await {
            machinery = Some(format!("pre-sample {h}: {e}"));
        }
    }
    let daser = {
        let hub_g = hub.lock().unwrap();
        start_daser(&hub_g.p2p, store.clone(), &events, WINDOW, cfg.limit, cfg.allowance)
    };
    let daser = match daser {
        Ok(d) => d,
        Err(e) => {
            return RunOut {
                class: "machinery".into(),
                viols: vec![],
                obs_key: 0,
                events: 0,
                stats: BTreeMap::new(),
                machinery: Some(format!("Daser::start: {e}")),
            };
        }
    };
    let mut sys = Sys {
        cfg: cfg.clone(),
        fx,
        store,
        hub,
        daser,
        m,
        used_small_advance: false,
    };
    // the Daser starts without peers: nothing may happen
    sys.settle().await;
    if !sys.m.rounds.is_empty() {
        machinery = Some("Daser sampled without any connected peer".into());
    }
    if let Some(v) = cfg.preset_highest {
        sys.apply(&Op::ReportHighest(v)).await.ok();
    }
    if cfg.preset_backlog != 0 {
        sys.apply(&Op::ReportBacklog(cfg.preset_backlog)).await.ok();
    }
    sys.settle().await;
    sys.apply(&Op::Reconnect).await.ok();
    sys.settle().await;

    let mut class = "horizon";
    let mut n_events = 0u64;
    for _ in 0..cfg.horizon {
        if machinery.is_some() || sys.m.fatal.is_some() {
            break;
        }
        let ops = sys.menu();
        let c = ch.choose(ops.len(), || format!("{:?}", ops));
        if ch.diverged.is_some() {
            break;
        }
        let op = ops[c].clone();
        if let Some(l) = ch.labels.last_mut() {
            *l = format!("{op:?}");
        }
        if op == Op::Stop {
            class = "completed";
            break;
        }
        sys.m.obs.push(format!("op {op:?}"));
        if let Err(e) = sys.apply(&op).await {
            machinery = Some(format!("{op:?}: {e}"));
            break;
        }
        n_events += 1;
        sys.settle().await;
    }
    sys.daser.stop();
    sys.daser.join().await;
    if let Some(f) = &sys.m.fatal {
        class = "daser-fatal-error";
        sys.m.obs.push(format!("fatal {f}"));
    }
    let obs_key = fnv64(sys.m.obs.join("\n").as_bytes());
    let fatal = sys.m.fatal.clone();
    RunOut {
        class: class.into(),
        viols: std::mem::take(&mut sys.m.viols),
        obs_key,
        events: n_events,
        stats: std::mem::take(&mut sys.m.stats),
        machinery: machinery.or(fatal.map(|f| format!("the Daser worker died: {f}"))),
    }
}

static PROGRESS: std::sync::atomic::AtomicU64 = std::sync::atomic::AtomicU64::new(0);

/// An execution that parks forever (every task blocked, no timer pending) would hang the
/// whole check: a watchdog turns "no execution finished for 180 s" into a machinery error.
pub fn start_watchdog(id: &str) {
    use std::sync::atomic::Ordering;
    let id = id.to_string();
    std::thread::spawn(move || {
        let mut last = PROGRESS.load(Ordering::Relaxed);
        let mut idle = 0u32;
        loop {
            std::thread::sleep(Duration::from_secs(10));
            let now = PROGRESS.load(Ordering::Relaxed);
            if now == last {
                idle += 1;
                if idle >= 18 {
                    machinery_error(&id, "watchdog: no execution of the Daser system finished for 180 s (an execution is stuck with every task blocked)");
                }
            } else {
                idle = 0;
                last = now;
            }
        }
    });
}

/// One complete execution on a fresh current-thread runtime with the clock paused.
pub fn run_once(cfg: &Cfg, ch: &mut Chooser) -> RunOut {
    let rt = tokio::runtime::Builder::new_current_thread()
        .enable_time()
        .start_paused(true)
        .build()
        .expect("runtime");
    let out = rt.block_on(run_async(cfg, ch));
    drop(rt);
    PROGRESS.fetch_add(1, std::sync::atomic::Ordering::Relaxed);
    out
}

// ---------------------------------------------------------------------------------------
// exploration of one configuration

pub struct Explore {
    pub bound: usize,
    pub wall_cap: Duration,
    pub max_execs: u64,
}

/// Statistics of the property-level things that happened over all executions.
pub type Stats = Mutex<BTreeMap<String, u64>>;

/// Explores `cfg` up to `ex.bound` deviations; violations of the properties in `props` are
/// reported (others are only counted in `stats` as `other:<prop>:<key>`).
pub fn explore_cfg(cfg: &Cfg, ex: &Explore, props: &[&str], stats: &Stats, rep: &mut Report) -> Result<(), String> {
    let machinery: Mutex<Option<String>> = Mutex::new(None);
    let mut local = Report::new();
    local.sample_cap = 2;
    let dc = DevConfig {
        bound: ex.bound,
        wall_cap: ex.wall_cap,
        max_execs: ex.max_execs,
        max_deviation_pos: 0,
    };
    let r = explore_deviations(
        &dc,
        |prefix, keep| {
            let mut ch = Chooser::new(prefix, keep);
            let out = run_once(cfg, &mut ch);
            if let Some(m) = &out.machinery {
                machinery.lock().unwrap().get_or_insert_with(|| format!("{m} (cfg {}, prefix {prefix:?})", cfg.name));
            }
            // `keep` marks the explorer's re-runs (samples, replay-twice): count each execution once
            if !keep {
                let mut s = stats.lock().unwrap();
                for (k, v) in &out.stats {
                    *s.entry(k.to_string()).or_insert(0) += v;
                }
                for v in &out.viols {
                    if !props.contains(&v.prop) {
                        *s.entry(format!("other:{}:{}", v.prop, v.key)).or_insert(0) += 1;
                    }
                }
            }
            let viols: Vec<(String, String)> = out
                .viols
                .iter()
                .filter(|v| props.contains(&v.prop))
                .map(|v| (v.key.to_string(), format!("[{}] {}", v.prop, v.what)))
                .collect();
            Exec::from_chooser(ch, out.class, out.obs_key, viols, out.events)
        },
        &mut local,
    );
    for v in &mut local.violations {
        if let Some(o) = v.case.as_object_mut() {
            o.insert("cfg".into(), serde_json::to_value(cfg).unwrap());
        }
    }
    for s in &mut local.samples {
        if let Some(o) = s.as_object_mut() {
            o.insert("cfg".into(), serde_json::json!(cfg.name));
        }
    }
    // per-configuration extras would overwrite each other: keep them under the cfg name
    let extras = std::mem::take(&mut local.extras);
    if let Some(per) = extras.get("executions_by_deviations").and_then(|v| v.as_array()) {
        let mut s = stats.lock().unwrap();
        for (d, n) in per.iter().enumerate() {
            let n = n.as_u64().unwrap_or(0);
            *s.entry("#executions".into()).or_insert(0) += n;
            if d > 0 {
                *s.entry("#deviating-executions".into()).or_insert(0) += n;
            }
        }
    }
    local.extra(&format!("cfg:{}", cfg.name), serde_json::json!(extras));
    rep.merge_in(local);
    if let Some(m) = machinery.into_inner().unwrap() {
        return Err(m);
    }
    r
}

/// `--replay`: re-runs exactly the recorded configuration and choice sequence.
pub fn replay(case: &serde_json::Value, props: &[&str], rep: &mut Report) -> Result<(), String> {
    let cfg: Cfg = serde_json::from_value(case["cfg"].clone()).map_err(|e| format!("replay cfg: {e}"))?;
    let choices: Vec<u32> = serde_json::from_value(case["choices"].clone()).map_err(|e| format!("replay choices: {e}"))?;
    let mut ch = Chooser::new(&choices, true);
    let out = run_once(&cfg, &mut ch);
    if let Some(d) = &ch.diverged {
        return Err(d.clone());
    }
    if let Some(m) = out.machinery {
        return Err(m);
    }
    rep.evaluations += 1;
    rep.traces += 1;
    rep.transitions += out.events;
    *rep.classes.entry(out.class.clone()).or_insert(0) += 1;
    for v in out.viols.iter().filter(|v| props.contains(&v.prop)) {
        rep.violation(
            v.key,
            format!("[{}] {}", v.prop, v.what),
            serde_json::json!({"cfg": cfg, "choices": ch.taken, "labels": ch.labels}),
        );
    }
    Ok(())
}

pub fn merge_stats(stats: &Stats, rep: &mut Report) {
    let s = stats.lock().unwrap();
    for (k, v) in s.iter() {
        match k.as_str() {
            // every execution is a distinct choice sequence by construction of the explorer
            "#executions" => rep.extra("distinct_by_construction", serde_json::json!(v)),
            "#deviating-executions" => rep.extra("distinct_nontrivial_by_construction", serde_json::json!(v)),
            _ => *rep.classes.entry(format!("seen:{k}")).or_insert(0) += v,
        }
    }
}
