//! Hand-built ICS-23 proof chains for tiny stores (C45), plus an independent checker.
//!
//! * bank store: IAVL-shaped tree (leaf  = sha256(0x00 | zz(size=1) | zz(version) | len(key) | key | 0x20 | sha256(value)),
//!   inner = sha256(zz(height) | zz(size) | zz(version) | 0x20 | left | 0x20 | right)), proof spec `ics23:iavl`;
//! * multistore: RFC-6962 style simple merkle tree over (store name -> store root), leaf =
//!   sha256(0x00 | len(name) | name | 0x20 | sha256(root)), inner = sha256(0x01 | left | right),
//!   proof spec `ics23:simple`.
//!
//! Everything here is written from the ICS-23 / IAVL / CometBFT encodings, shares no code
//! with lumina, and every honest proof is self-checked with the `ics23` crate before use.
#![allow(dead_code)]

use ics23::commitment_proof::Proof;
use ics23::{CommitmentProof, ExistenceProof, HashOp, InnerOp, LeafOp, LengthOp, NonExistenceProof};
use sha2::{Digest, Sha256};

pub type H = [u8; 32];

pub fn sha(data: &[u8]) -> H {
    Sha256::digest(data).into()
}

pub fn uvarint(mut v: u64, out: &mut Vec<u8>) {
    while v >= 0x80 {
        out.push((v as u8) | 0x80);
        v >>= 7;
    }
    out.push(v as u8);
}

/// protobuf/amino signed varint (zig-zag), as used in IAVL node headers
pub fn zigzag(v: i64, out: &mut Vec<u8>) {
    uvarint(((v << 1) ^ (v >> 63)) as u64, out);
}

fn leaf_image(prefix: &[u8], key: &[u8], value: &[u8]) -> Vec<u8> {
    let mut img = prefix.to_vec();
    uvarint(key.len() as u64, &mut img);
    img.extend_from_slice(key);
    uvarint(32, &mut img);
    img.extend_from_slice(&sha(value));
    img
}

pub fn std_leaf_op(prefix: Vec<u8>) -> LeafOp {
    LeafOp {
        hash: HashOp::Sha256.into(),
        prehash_key: HashOp::NoHash.into(),
        prehash_value: HashOp::Sha256.into(),
        length: LengthOp::VarProto.into(),
        prefix,
    }
}

// ---------------------------------------------------------------------------------------
// IAVL-shaped tree

#[derive(Clone, Debug)]
pub struct IavlLeaf {
    pub key: Vec<u8>,
    pub value: Vec<u8>,
    pub version: i64,
}

#[derive(Clone, Debug)]
enum INode {
    Leaf(usize),
    Inner { left: Box<INode>, right: Box<INode>, height: i64, size: i64, version: i64 },
}

#[derive(Clone, Debug)]
pub struct IavlTree {
    pub leaves: Vec<IavlLeaf>,
    root: INode,
}

impl IavlTree {
    /// `leaves` must be sorted by key, non-empty, keys distinct.
    pub fn new(leaves: Vec<IavlLeaf>) -> IavlTree {
        assert!(!leaves.is_empty());
        assert!(leaves.windows(2).all(|w| w[0].key < w[1].key));
        fn build(lo: usize, hi: usize, leaves: &[IavlLeaf]) -> INode {
            if hi - lo == 1 {
                return INode::Leaf(lo);
            }
            let mid = lo + (hi - lo + 1) / 2;
            let left = build(lo, mid, leaves);
            let right = build(mid, hi, leaves);
            let h = |n: &INode| match n {
                INode::Leaf(_) => 0,
                INode::Inner { height, .. } => *height,
            };
            let height = 1 + h(&left).max(h(&right));
            let version = leaves[lo..hi].iter().map(|l| l.version).max().unwrap();
            INode::Inner {
                left: Box::new(left),
                right: Box::new(right),
                height,
                size: (hi - lo) as i64,
                version,
            }
        }
        let root = build(0, leaves.len(), &leaves);
        IavlTree { leaves, root }
    }

    fn leaf_prefix(&self, i: usize) -> Vec<u8> {
        let mut p = vec![];
        zigzag(0, &mut p);
        zigzag(1, &mut p);
        zigzag(self.leaves[i].version, &mut p);
        p
    }

    fn hash_node(&self, n: &INode) -> H {
        match n {
            INode::Leaf(i) => sha(&leaf_image(&self.leaf_prefix(*i), &self.leaves[*i].key, &self.leaves[*i].value)),
            INode::Inner { left, right, height, size, version } => {
                let mut img = vec![];
                zigzag(*height, &mut img);
                zigzag(*size, &mut img);
                zigzag(*version, &mut img);
                img.push(0x20);
                img.extend_from_slice(&self.hash_node(left));
                img.push(0x20);
                img.extend_from_slice(&self.hash_node(right));
                sha(&img)
            }
        }
    }

    pub fn root(&self) -> H {
        self.hash_node(&self.root)
    }

    fn contains(n: &INode, i: usize) -> bool {
        match n {
            INode::Leaf(j) => *j == i,
            INode::Inner { left, right, .. } => Self::contains(left, i) || Self::contains(right, i),
        }
    }

    /// Existence proof of leaf `i` (path from the leaf upwards).
    pub fn exist(&self, i: usize) -> ExistenceProof {
        let mut path_down: Vec<InnerOp> = vec![];
        let mut n = &self.root;
        while let INode::Inner { left, right, height, size, version } = n {
            let mut hdr = vec![];
            zigzag(*height, &mut hdr);
            zigzag(*size, &mut hdr);
            zigzag(*version, &mut hdr);
            if Self::contains(left, i) {
                let mut prefix = hdr;
                prefix.push(0x20);
                let mut suffix = vec![0x20];
                suffix.extend_from_slice(&self.hash_node(right));
                path_down.push(InnerOp { hash: HashOp::Sha256.into(), prefix, suffix });
                n = left;
            } else {
                let mut prefix = hdr;
                prefix.push(0x20);
                prefix.extend_from_slice(&self.hash_node(left));
                prefix.push(0x20);
                path_down.push(InnerOp { hash: HashOp::Sha256.into(), prefix, suffix: vec![] });
                n = right;
            }
        }
        path_down.reverse();
        ExistenceProof {
            key: self.leaves[i].key.clone(),
            value: self.leaves[i].value.clone(),
            leaf: Some(std_leaf_op(self.leaf_prefix(i))),
            path: path_down,
        }
    }

    pub fn index_of(&self, key: &[u8]) -> Option<usize> {
        self.leaves.iter().position(|l| l.key == key)
    }

    /// Honest non-existence proof of `key` (which must be absent).
    pub fn nonexist(&self, key: &[u8]) -> NonExistenceProof {
        assert!(self.index_of(key).is_none());
        let right = self.leaves.iter().position(|l| l.key.as_slice() > key);
        let left = match right {
            Some(0) => None,
            Some(r) => Some(r - 1),
            None => Some(self.leaves.len() - 1),
        };
        NonExistenceProof {
            key: key.to_vec(),
            left: left.map(|i| self.exist(i)),
            right: right.map(|i| self.exist(i)),
        }
    }
}

// ---------------------------------------------------------------------------------------
// simple (RFC 6962) merkle tree over named stores

#[derive(Clone, Debug)]
pub struct MultiStore {
    /// sorted by name
    pub stores: Vec<(String, Vec<u8>)>,
}

impl MultiStore {
    pub fn new(mut stores: Vec<(String, Vec<u8>)>) -> MultiStore {
        stores.sort();
        MultiStore { stores }
    }

    fn leaf_hash(&self, i: usize) -> H {
        sha(&leaf_image(&[0], self.stores[i].0.as_bytes(), &self.stores[i].1))
    }

    fn split(n: usize) -> usize {
        // largest power of two strictly less than n
        let mut k = 1;
        while k * 2 < n {
            k *= 2;
        }
        k
    }

    fn range_hash(&self, lo: usize, hi: usize) -> H {
        if hi - lo == 1 {
            return self.leaf_hash(lo);
        }
        let k = lo + Self::split(hi - lo);
        let mut img = vec![1u8];
        img.extend_from_slice(&self.range_hash(lo, k));
        img.extend_from_slice(&self.range_hash(k, hi));
        sha(&img)
    }

    pub fn root(&self) -> H {
        self.range_hash(0, self.stores.len())
    }

    pub fn exist(&self, name: &str) -> ExistenceProof {
        let i = self.stores.iter().position(|s| s.0 == name).expect("store");
        let mut path_down = vec![];
        let (mut lo, mut hi) = (0, self.stores.len());
        while hi - lo > 1 {
            let k = lo + Self::split(hi - lo);
            if i < k {
                path_down.push(InnerOp {
                    hash: HashOp::Sha256.into(),
                    prefix: vec![1],
                    suffix: self.range_hash(k, hi).to_vec(),
                });
                hi = k;
            } else {
                let mut prefix = vec![1u8];
                prefix.extend_from_slice(&self.range_hash(lo, k));
                path_down.push(InnerOp { hash: HashOp::Sha256.into(), prefix, suffix: vec![] });
                lo = k;
            }
        }
        path_down.reverse();
        ExistenceProof {
            key: name.as_bytes().to_vec(),
            value: self.stores[i].1.clone(),
            leaf: Some(std_leaf_op(vec![0])),
            path: path_down,
        }
    }
}

pub fn commitment_exist(e: ExistenceProof) -> CommitmentProof {
    CommitmentProof { proof: Some(Proof::Exist(e)) }
}
pub fn commitment_nonexist(e: NonExistenceProof) -> CommitmentProof {
    CommitmentProof { proof: Some(Proof::Nonexist(e)) }
}

// ---------------------------------------------------------------------------------------
// sha256 host functions for the self-check with the ics23 crate

pub struct ShaOnly;
impl ics23::HostFunctionsProvider for ShaOnly {
    fn sha2_256(m: &[u8]) -> [u8; 32] {
        sha(m)
    }
    fn sha2_512(_: &[u8]) -> [u8; 64] {
        [0; 64]
    }
    fn sha2_512_truncated(_: &[u8]) -> [u8; 32] {
        [0; 32]
    }
    fn keccak_256(_: &[u8]) -> [u8; 32] {
        [0; 32]
    }
    fn ripemd160(_: &[u8]) -> [u8; 20] {
        [0; 20]
    }
    fn blake2b_512(_: &[u8]) -> [u8; 64] {
        [0; 64]
    }
    fn blake2s_256(_: &[u8]) -> [u8; 32] {
        [0; 32]
    }
    fn blake3(_: &[u8]) -> [u8; 32] {
        [0; 32]
    }
}

// ---------------------------------------------------------------------------------------
// independent checker (oracle side)

#[derive(Clone, Copy, Debug, PartialEq, Eq)]
pub enum SpecKind {
    Iavl,
    Simple,
}

fn read_uvarint(b: &[u8], pos: &mut usize) -> Option<u64> {
    let mut v: u64 = 0;
    let mut shift = 0;
    loop {
        let byte = *b.get(*pos)?;
        *pos += 1;
        if shift >= 64 {
            return None;
        }
        v |= ((byte & 0x7f) as u64) << shift;
        if byte & 0x80 == 0 {
            return Some(v);
        }
        shift += 7;
    }
}

/// Root that the existence proof `ep` commits (key, value) to, or None if the proof does not
/// have the shape of a leaf-to-root path of the given tree kind for exactly this key/value.
pub fn exist_root(kind: SpecKind, ep: &ExistenceProof, key: &[u8], value: &[u8]) -> Option<Vec<u8>> {
    if ep.key != key || ep.value != value || key.is_empty() || value.is_empty() {
        return None;
    }
    let leaf = ep.leaf.as_ref()?;
    if leaf.hash != HashOp::Sha256 as i32
        || leaf.prehash_key != HashOp::NoHash as i32
        || leaf.prehash_value != HashOp::Sha256 as i32
        || leaf.length != LengthOp::VarProto as i32
    {
        return None;
    }
    // a leaf image starts with 0x00 (IAVL: height 0; simple tree: leaf domain separator)
    if leaf.prefix.first() != Some(&0) {
        return None;
    }
    let mut h: Vec<u8> = sha(&leaf_image(&leaf.prefix, key, value)).to_vec();
    for step in &ep.path {
        if step.hash != HashOp::Sha256 as i32 {
            return None;
        }
        // an inner image never starts with the leaf marker
        if step.prefix.first().is_none_or(|b| *b == 0) {
            return None;
        }
        if kind == SpecKind::Simple && step.prefix[0] != 1 {
            return None;
        }
        let mut img = step.prefix.clone();
        img.extend_from_slice(&h);
        img.extend_from_slice(&step.suffix);
        h = sha(&img).to_vec();
    }
    Some(h)
}

pub fn decode_commitment(data: &[u8]) -> Option<CommitmentProof> {
    <CommitmentProof as prost::Message>::decode(data).ok()
}

pub fn spec_kind(type_name: &str) -> Option<SpecKind> {
    match type_name {
        "ics23:iavl" => Some(SpecKind::Iavl),
        "ics23:simple" => Some(SpecKind::Simple),
        _ => None,
    }
}
