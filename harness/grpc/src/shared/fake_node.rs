//! In-process fake gRPC node (DESIGN.md, C43-C45).
//!
//! `FakeEndpoint` is a `tower::Service<http::Request<tonic::body::Body>>` accepted by
//! `GrpcClientBuilder::transport`.  Every request is decoded (5-byte gRPC frame prefix +
//! protobuf), identified by its URI path and either answered at once by the node's `auto`
//! responder (bootstrap traffic that is not a choice point) or *parked* until the explorer
//! releases it with an `Answer` from a finite menu.  All endpoints of one node share one
//! state and one global event log (request arrivals and task completions, in real order),
//! so the driver sees exactly which endpoint was tried when.
#![allow(dead_code)]

use bytes::{Buf, BufMut, Bytes, BytesMut};
use http_body::Frame;
use http_body_util::BodyExt;
use std::collections::VecDeque;
use std::convert::Infallible;
use std::future::Future;
use std::pin::Pin;
use std::sync::{Arc, Mutex};
use std::task::{Context, Poll};
use std::time::Duration;
use tokio::sync::oneshot;
use tonic::body::Body as TonicBody;

/// What the node answers to one request.
#[derive(Clone, Debug)]
pub enum Answer {
    /// One data frame carrying the encoded protobuf message, then `grpc-status: 0` trailers.
    Msg(Vec<u8>),
    /// Trailers-only response carrying a gRPC status.
    Status { code: i32, message: String },
    /// The transport itself fails (the `Service::call` future resolves to `Err`).
    Transport,
    /// A data frame that is not a valid protobuf message for any response type.
    Garbage,
}

impl Answer {
    pub fn msg<M: prost::Message>(m: &M) -> Answer {
        Answer::Msg(m.encode_to_vec())
    }
    pub fn status(code: tonic::Code, message: &str) -> Answer {
        Answer::Status {
            code: code as i32,
            message: message.to_string(),
        }
    }
}

/// A request waiting for the explorer.
pub struct Parked {
    pub id: u64,
    pub endpoint: usize,
    pub path: String,
    /// the protobuf request message (frame prefix stripped)
    pub body: Vec<u8>,
    tx: Option<oneshot::Sender<Answer>>,
}

/// Global, totally ordered event log.
#[derive(Clone, Debug)]
pub enum Ev {
    /// a request reached endpoint `endpoint` (also recorded for auto-answered requests)
    Arrive {
        id: u64,
        endpoint: usize,
        path: String,
        body: Vec<u8>,
        auto: bool,
    },
    /// a driver task finished; `what` is the driver's own description of the result
    Done { call: usize, what: String },
}

type Auto = dyn Fn(usize, &str, &[u8]) -> Option<Answer> + Send + Sync;

struct Shared {
    parked: Vec<Parked>,
    log: Vec<Ev>,
    next_id: u64,
}

#[derive(Clone)]
pub struct FakeNode {
    shared: Arc<Mutex<Shared>>,
    auto: Arc<Auto>,
}

impl FakeNode {
    pub fn new() -> FakeNode {
        FakeNode::with_auto(|_, _, _| None)
    }

    /// `auto(endpoint, path, body)` may answer a request without parking it.
    pub fn with_auto(auto: impl Fn(usize, &str, &[u8]) -> Option<Answer> + Send + Sync + 'static) -> FakeNode {
        FakeNode {
            shared: Arc::new(Mutex::new(Shared {
                parked: vec![],
                log: vec![],
                next_id: 0,
            })),
            auto: Arc::new(auto),
        }
    }

    pub fn endpoint(&self, endpoint: usize) -> FakeEndpoint {
        FakeEndpoint {
            node: self.clone(),
            endpoint,
        }
    }

    /// (id, endpoint, path, body) of every parked request, oldest first.
    pub fn parked(&self) -> Vec<(u64, usize, String, Vec<u8>)> {
        let s = self.shared.lock().unwrap();
        s.parked
            .iter()
            .map(|p| (p.id, p.endpoint, p.path.clone(), p.body.clone()))
            .collect()
    }

    pub fn parked_len(&self) -> usize {
        self.shared.lock().unwrap().parked.len()
    }

    /// Releases parked request `id` with `answer`.  Returns false if no such request (or
    /// its caller has gone away).
    pub fn release(&self, id: u64, answer: Answer) -> bool {
        let mut s = self.shared.lock().unwrap();
        let Some(pos) = s.parked.iter().position(|p| p.id == id) else {
            return false;
        };
        let mut p = s.parked.remove(pos);
        drop(s);
        p.tx.take().map(|tx| tx.send(answer).is_ok()).unwrap_or(false)
    }

    pub fn push_done(&self, call: usize, what: String) {
        self.shared.lock().unwrap().log.push(Ev::Done { call, what });
    }

    /// Events recorded since position `from`.
    pub fn log_since(&self, from: usize) -> Vec<Ev> {
        self.shared.lock().unwrap().log[from..].to_vec()
    }

    pub fn log_len(&self) -> usize {
        self.shared.lock().unwrap().log.len()
    }
}

#[derive(Clone)]
pub struct FakeEndpoint {
    node: FakeNode,
    endpoint: usize,
}

#[derive(Debug)]
pub struct FakeTransportError(pub String);
impl std::fmt::Display for FakeTransportError {
    fn fmt(&self, f: &mut std::fmt::Formatter<'_>) -> std::fmt::Result {
        write!(f, "fake transport error: {}", self.0)
    }
}
impl std::error::Error for FakeTransportError {}

/// Response body: a fixed list of frames.
pub struct FakeBody {
    frames: VecDeque<Frame<Bytes>>,
}

impl http_body::Body for FakeBody {
    type Data = Bytes;
    type Error = Infallible;
    fn poll_frame(mut self: Pin<&mut Self>, _cx: &mut Context<'_>) -> Poll<Option<Result<Frame<Bytes>, Infallible>>> {
        Poll::Ready(self.frames.pop_front().map(Ok))
    }
    fn is_end_stream(&self) -> bool {
        self.frames.is_empty()
    }
}

fn grpc_frame(msg: &[u8]) -> Bytes {
    let mut b = BytesMut::with_capacity(5 + msg.len());
    b.put_u8(0);
    b.put_u32(msg.len() as u32);
    b.put_slice(msg);
    b.freeze()
}

fn response_for(answer: Answer) -> Result<http::Response<FakeBody>, FakeTransportError> {
    let data_response = |payload: Bytes| {
        let mut trailers = http::HeaderMap::new();
        trailers.insert("grpc-status", http::HeaderValue::from_static("0"));
        let frames = VecDeque::from(vec![Frame::data(payload), Frame::trailers(trailers)]);
        http::Response::builder()
            .status(200)
            .header("content-type", "application/grpc")
            .body(FakeBody { frames })
            .unwrap()
    };
    match answer {
        Answer::Msg(m) => Ok(data_response(grpc_frame(&m))),
        Answer::Garbage => Ok(data_response(grpc_frame(&[0xff, 0xff, 0xff, 0xff, 0xff, 0xff, 0xff, 0xff, 0xff, 0xff, 0xff]))),
        Answer::Status { code, message } => {
            let msg = tonic::Status::new(tonic::Code::from_i32(code), message);
            // let tonic itself encode the status into headers (percent-encoding of the message)
            let mut headers = http::HeaderMap::new();
            msg.add_header(&mut headers).map_err(|e| FakeTransportError(format!("cannot encode status: {e}")))?;
            let mut rb = http::Response::builder().status(200).header("content-type", "application/grpc");
            for (k, v) in headers.iter() {
                rb = rb.header(k, v);
            }
            Ok(rb.body(FakeBody { frames: VecDeque::new() }).unwrap())
        }
        Answer::Transport => Err(FakeTransportError("connection refused".into())),
    }
}

impl tonic::codegen::Service<http::Request<TonicBody>> for FakeEndpoint {
    type Response = http::Response<FakeBody>;
    type Error = FakeTransportError;
    type Future = Pin<Box<dyn Future<Output = Result<Self::Response, Self::Error>> + Send>>;

    fn poll_ready(&mut self, _cx: &mut Context<'_>) -> Poll<Result<(), Self::Error>> {
        Poll::Ready(Ok(()))
    }

    fn call(&mut self, req: http::Request<TonicBody>) -> Self::Future {
        let node = self.node.clone();
        let endpoint = self.endpoint;
        Box::pin(async move {
            let path = req.uri().path().to_string();
            let collected = req
                .into_body()
                .collect()
                .await
                .map_err(|e| FakeTransportError(format!("request body: {e}")))?;
            let mut raw = collected.to_bytes();
            if raw.len() < 5 {
                return Err(FakeTransportError("short gRPC frame".into()));
            }
            let compressed = raw.get_u8();
            let len = raw.get_u32() as usize;
            if compressed != 0 || raw.len() != len {
                return Err(FakeTransportError("unexpected gRPC framing".into()));
            }
            let body = raw.to_vec();

            let auto = (node.auto)(endpoint, &path, &body);
            let rx = {
                let mut s = node.shared.lock().unwrap();
                let id = s.next_id;
                s.next_id += 1;
                s.log.push(Ev::Arrive {
                    id,
                    endpoint,
                    path: path.clone(),
                    body: body.clone(),
                    auto: auto.is_some(),
                });
                if auto.is_some() {
                    None
                } else {
                    let (tx, rx) = oneshot::channel();
                    s.parked.push(Parked {
                        id,
                        endpoint,
                        path,
                        body,
                        tx: Some(tx),
                    });
                    Some(rx)
                }
            };
            let answer = match (auto, rx) {
                (Some(a), _) => a,
                (None, Some(rx)) => rx.await.map_err(|_| FakeTransportError("node dropped".into()))?,
                (None, None) => unreachable!(),
            };
            response_for(answer)
        })
    }
}

/// Quiescence: on a paused current-thread runtime `sleep` returns only once every other
/// task is blocked (the clock auto-advances only when the runtime is idle).
pub async fn settle() {
    tokio::time::sleep(Duration::from_millis(1)).await;
}

/// A fresh current-thread runtime with the clock paused.
pub fn paused_runtime() -> tokio::runtime::Runtime {
    tokio::runtime::Builder::new_current_thread()
        .enable_time()
        .start_paused(true)
        .build()
        .expect("runtime")
}

/// Classification of gRPC status codes into the network class used by fail-over, written
/// from the crate's documented list (`Error::is_network_error` docs and unit tests):
/// Unavailable, Unknown, DeadlineExceeded, Aborted; everything else is not network-related.
pub fn code_is_network(code: tonic::Code) -> bool {
    matches!(
        code,
        tonic::Code::Unavailable | tonic::Code::Unknown | tonic::Code::DeadlineExceeded | tonic::Code::Aborted
    )
}
