//! C43 — Transaction submission keeps account sequences consistent.       (engine E3)
//!
//! System: the real `GrpcClient` (signer configured) over the in-process fake node on a paused
//! current-thread runtime.  1..3 submissions (`broadcast_message` + `confirm`) are started
//! concurrently from one client; bootstrap traffic (GetLatestBlock, Account) is served without a
//! choice point; every BroadcastTx / TxStatus / EstimateGasPriceAndUsage request is parked and
//! the explorer chooses which outstanding request to answer next (or to let the polling timers
//! fire) and with which answer from a finite menu.  After all submissions have finished, one
//! more submission with honest answers shows the client's final belief.
//!
//! Oracle: a reference model of the believed sequence V, advanced in lock-step over the totally
//! ordered event log (request arrivals, released answers, call completions):
//!  * every freshly signed transaction (BroadcastTx of a submission that has no accepted
//!    broadcast yet, and the dummy transaction of a gas estimation) carries
//!    `signer_infos[0].sequence == V` and a valid signature over exactly those bytes;
//!  * accepted broadcast (code 0 or TxInMempoolCache)  => V += 1;
//!    sequence mismatch "expected E"                     => V := E;
//!    other rejections / errors                          => V unchanged;
//!    a confirmation ending with Rejected (any code) of a tx signed with s => the
//!    belief may stay V or become s (the statement leaves it open): V becomes the set {V, s}
//!    when the call completes; the next fresh signing must use an admissible value and
//!    collapses the set; +1 / resync apply to every admissible value;
//!  * every BroadcastTx of a submission that already has an accepted broadcast (re-broadcast
//!    after Evicted / Unknown) is byte-identical to the accepted one;
//!  * `BroadcastedTx` handed to the caller (bytes, sequence) is the accepted one.
use celestia_grpc::{Error, GrpcClient, TxConfig};
use celestia_proto::celestia::core::v1::gas_estimation::{EstimateGasPriceAndUsageRequest, EstimateGasPriceAndUsageResponse};
use celestia_proto::celestia::core::v1::tx::{TxStatusRequest, TxStatusResponse};
use celestia_proto::cosmos::auth::v1beta1::{BaseAccount as RawBaseAccount, QueryAccountResponse};
use celestia_proto::cosmos::bank::v1beta1::MsgSend;
use celestia_proto::cosmos::base::abci::v1beta1::TxResponse;
use celestia_proto::cosmos::base::tendermint::v1beta1::GetLatestBlockResponse;
use celestia_proto::cosmos::tx::v1beta1::{AuthInfo, BroadcastTxRequest, BroadcastTxResponse, SignDoc, TxBody, TxRaw};
use celestia_types::state::AccAddress;
use celestia_types::test_utils::ExtendedHeaderGenerator;
use k256::ecdsa::signature::Verifier;
use k256::ecdsa::{Signature, SigningKey, VerifyingKey};
use lv_core::*;
use prost::{Message, Name};
use serde::{Deserialize, Serialize};
use serde_json::{Value, json};
use sha2::{Digest, Sha256};
use std::collections::HashMap;
use std::sync::OnceLock;
use std::sync::atomic::{AtomicU64, Ordering};
use std::time::Duration;

#[path = "../shared/fake_node.rs"]
mod fake_node;
use fake_node::*;

const P_BLOCK: &str = "/cosmos.base.tendermint.v1beta1.Service/GetLatestBlock";
const P_ACCOUNT: &str = "/cosmos.auth.v1beta1.Query/Account";
const P_BROADCAST: &str = "/cosmos.tx.v1beta1.Service/BroadcastTx";
const P_STATUS: &str = "/celestia.core.v1.tx.Tx/TxStatus";
const P_ESTIMATE: &str = "/celestia.core.v1.gas_estimation.GasEstimator/EstimateGasPriceAndUsage";

const S0: u64 = 10; // account sequence reported by the node at start
const ACCOUNT_NUMBER: u64 = 7;
const CHAIN_ID: &str = "private"; // ExtendedHeaderGenerator's chain id
const CONFIRM_INTERVAL_MS: u64 = 500;

const CODE_WRONG_SEQUENCE: u32 = 32;
const CODE_INVALID_SEQUENCE: u32 = 3;
const CODE_MEMPOOL_CACHE: u32 = 19;
const CODE_INSUFFICIENT_FEE: u32 = 13;
const CODE_INSUFFICIENT_FUNDS: u32 = 5;
const CODE_OUT_OF_GAS: u32 = 11;

static EV_FRESH: AtomicU64 = AtomicU64::new(0);
static EV_SIMULATE: AtomicU64 = AtomicU64::new(0);
static EV_RESYNC: AtomicU64 = AtomicU64::new(0);
static EV_CACHE_HIT: AtomicU64 = AtomicU64::new(0);
static EV_REJECTION: AtomicU64 = AtomicU64::new(0);
static EV_REBROADCAST: AtomicU64 = AtomicU64::new(0);
static EV_ROLLBACK: AtomicU64 = AtomicU64::new(0);
static EV_CONTENDED: AtomicU64 = AtomicU64::new(0);
static EXECS_NONTRIVIAL: AtomicU64 = AtomicU64::new(0);

#[derive(Clone, Debug, Serialize, Deserialize, PartialEq)]
struct Config {
    /// per submission: true = no gas limit configured (gas estimation round-trip)
    estimate: Vec<bool>,
    /// per submission: true = blob submission (`broadcast_blobs`, BlobTx envelope), false = `broadcast_message`
    #[serde(default)]
    blob: Vec<bool>,
    /// extended answer menus (legacy sequence code, gRPC-level failures)
    wide_menu: bool,
    bound: usize,
}

fn sha_hex_upper(b: &[u8]) -> String {
    hex::encode_upper(Sha256::digest(b))
}

fn signing_key(seed: u64) -> SigningKey {
    let mut f = Fill::new(seed, 4300);
    loop {
        if let Ok(k) = SigningKey::from_slice(&f.bytes(32)) {
            return k;
        }
    }
}

fn latest_block_response() -> &'static Vec<u8> {
    static B: OnceLock<Vec<u8>> = OnceLock::new();
    B.get_or_init(|| {
        let eh = ExtendedHeaderGenerator::new_from_height(5).next();
        let block = celestia_types::block::Block::new(
            eh.header.clone(),
            celestia_types::block::Data { txs: vec![], square_size: 1, hash: vec![] },
            Default::default(),
            None,
        );
        assert_eq!(eh.header.chain_id.as_str(), CHAIN_ID);
        GetLatestBlockResponse { block_id: None, block: Some(block.into()), sdk_block: None }.encode_to_vec()
    })
}

/// What the fake node extracts from a transaction.
#[derive(Clone, Debug)]
struct DecodedTx {
    sub: usize,
    sequence: u64,
    sig_ok: bool,
}

fn decode_tx(tx_bytes: &[u8], vk: &VerifyingKey) -> Result<DecodedTx, String> {
    // a blob submission wraps the signed transaction into a BlobTx envelope
    let inner;
    let tx_bytes = match celestia_types::blob::RawBlobTx::decode(tx_bytes) {
        Ok(b) if b.type_id == "BLOB" => {
            inner = b.tx;
            inner.as_slice()
        }
        _ => tx_bytes,
    };
    let raw = TxRaw::decode(tx_bytes).map_err(|e| format!("TxRaw: {e}"))?;
    let body = TxBody::decode(raw.body_bytes.as_slice()).map_err(|e| format!("TxBody: {e}"))?;
    let auth = AuthInfo::decode(raw.auth_info_bytes.as_slice()).map_err(|e| format!("AuthInfo: {e}"))?;
    let sub: usize = body.memo.strip_prefix("sub-").and_then(|s| s.parse().ok()).ok_or_else(|| format!("memo {:?}", body.memo))?;
    let si = auth.signer_infos.first().ok_or("no signer info")?;
    let doc = SignDoc {
        body_bytes: raw.body_bytes.clone(),
        auth_info_bytes: raw.auth_info_bytes.clone(),
        chain_id: CHAIN_ID.to_string(),
        account_number: ACCOUNT_NUMBER,
    };
    let sig_ok = raw
        .signatures
        .first()
        .and_then(|s| Signature::from_slice(s).ok())
        .is_some_and(|s| vk.verify(&doc.encode_to_vec(), &s).is_ok());
    Ok(DecodedTx { sub, sequence: si.sequence, sig_ok })
}

// ---------------------------------------------------------------------------------------
// answer menus

#[derive(Clone, Debug, PartialEq)]
enum BAns {
    Ok,
    Mismatch { expected: u64, code: u32 },
    MempoolCache,
    Rejected,
    GrpcError,
}

#[derive(Clone, Debug, PartialEq)]
enum SAns {
    Committed,
    Pending,
    CommittedFailed,
    RejectedOther,
    RejectedSequence,
    Evicted,
    Unknown,
    GrpcError,
}

#[derive(Clone, Debug, PartialEq)]
enum EAns {
    Ok,
    Mismatch { expected: u64 },
    OtherError,
}

fn broadcast_menu(s: u64, fresh: bool, wide: bool) -> Vec<BAns> {
    let mut m = vec![BAns::Ok];
    m.push(BAns::Mismatch { expected: s + 1, code: CODE_WRONG_SEQUENCE });
    if fresh {
        m.push(BAns::Mismatch { expected: s.saturating_sub(1), code: CODE_WRONG_SEQUENCE });
        m.push(BAns::Mismatch { expected: s + 2, code: CODE_WRONG_SEQUENCE });
    }
    m.push(BAns::MempoolCache);
    m.push(BAns::Rejected);
    if wide {
        if fresh {
            m.push(BAns::Mismatch { expected: s + 1, code: CODE_INVALID_SEQUENCE });
        }
        m.push(BAns::GrpcError);
    }
    m
}

fn status_menu(wide: bool) -> Vec<SAns> {
    let mut m = vec![
        SAns::Committed,
        SAns::Pending,
        SAns::CommittedFailed,
        SAns::RejectedOther,
        SAns::RejectedSequence,
        SAns::Evicted,
        SAns::Unknown,
    ];
    if wide {
        m.push(SAns::GrpcError);
    }
    m
}

fn estimate_menu(s: u64) -> Vec<EAns> {
    vec![
        EAns::Ok,
        EAns::Mismatch { expected: s + 1 },
        EAns::Mismatch { expected: s.saturating_sub(1) },
        EAns::Mismatch { expected: s + 2 },
        EAns::OtherError,
    ]
}

fn mismatch_log(expected: u64, got: u64) -> String {
    format!("account sequence mismatch, expected {expected}, got {got}: incorrect account sequence")
}

fn broadcast_answer(a: &BAns, tx_bytes: &[u8], s: u64) -> Answer {
    let resp = |code: u32, raw_log: String| {
        Answer::msg(&BroadcastTxResponse {
            tx_response: Some(TxResponse {
                height: 0,
                txhash: sha_hex_upper(tx_bytes),
                codespace: if code == 0 { String::new() } else { "sdk".into() },
                code,
                raw_log,
                ..Default::default()
            }),
        })
    };
    match a {
        BAns::Ok => resp(0, String::new()),
        BAns::Mismatch { expected, code } => resp(*code, mismatch_log(*expected, s)),
        BAns::MempoolCache => resp(CODE_MEMPOOL_CACHE, "tx already in mempool".into()),
        BAns::Rejected => resp(CODE_INSUFFICIENT_FEE, "insufficient fees; got: 1utia required: 2utia".into()),
        BAns::GrpcError => Answer::status(tonic::Code::Unavailable, "node is shutting down"),
    }
}

fn status_answer(a: &SAns, sub: usize) -> Answer {
    let resp = |status: &str, code: u32, error: &str, height: i64| {
        Answer::msg(&TxStatusResponse { height, index: 0, execution_code: code, error: error.into(), status: status.into() })
    };
    match a {
        SAns::Committed => resp("COMMITTED", 0, "", 100 + sub as i64),
        SAns::Pending => resp("PENDING", 0, "", 0),
        SAns::CommittedFailed => resp("COMMITTED", CODE_INSUFFICIENT_FUNDS, "insufficient funds", 100 + sub as i64),
        SAns::RejectedOther => resp("REJECTED", CODE_OUT_OF_GAS, "out of gas", 0),
        SAns::RejectedSequence => resp("REJECTED", CODE_WRONG_SEQUENCE, "account sequence mismatch", 0),
        SAns::Evicted => resp("EVICTED", 0, "", 0),
        SAns::Unknown => resp("UNKNOWN", 0, "", 0),
        SAns::GrpcError => Answer::status(tonic::Code::Unavailable, "node is shutting down"),
    }
}

fn estimate_answer(a: &EAns, s: u64) -> Answer {
    match a {
        EAns::Ok => Answer::msg(&EstimateGasPriceAndUsageResponse { estimated_gas_price: 0.002, estimated_gas_used: 90_000 }),
        // cosmos-sdk reports simulation failures as a gRPC status with the error text
        EAns::Mismatch { expected } => Answer::status(tonic::Code::Unknown, &format!("rpc error: code = Unknown desc = {} [cosmos/cosmos-sdk/x/auth/ante/sigverify.go:290] with gas used: '35000'", mismatch_log(*expected, s))),
        EAns::OtherError => Answer::status(tonic::Code::InvalidArgument, "out of gas in location: ReadFlat"),
    }
}

// ---------------------------------------------------------------------------------------
// model

#[derive(Clone, Debug, PartialEq)]
enum Phase {
    /// no accepted broadcast yet
    Signing,
    /// accepted broadcast (bytes, hash, sequence)
    Confirming { tx: Vec<u8>, hash: String, sequence: u64 },
}

struct Model {
    /// admissible values of the believed sequence (a single value except after a Rejected
    /// confirmation, where the statement leaves the belief open between V and the rejected
    /// transaction's sequence)
    v: Vec<u64>,
    phase: Vec<Phase>,
    /// sequence of the last Rejected(non-sequence code) status given to the submission
    pending_rollback: Vec<Option<u64>>,
    /// the submission's poller is waiting for its interval timer
    sleeping: Vec<bool>,
    /// the submission was told Evicted / Unknown and has not re-broadcast yet
    expect_rebroadcast: Vec<bool>,
    finished: Vec<bool>,
    viol: Vec<(String, String)>,
    trace: Vec<String>,
}

fn count(c: &AtomicU64, keep: bool) {
    if !keep {
        c.fetch_add(1, Ordering::Relaxed);
    }
}

impl Model {
    fn violation(&mut self, key: &str, what: String) {
        self.viol.push((key.to_string(), what));
    }
}

#[derive(Debug)]
#[allow(dead_code)]
enum SubResult {
    Ok { height: u64 },
    Err(String),
}

fn err_kind(e: &Error) -> String {
    match e {
        Error::TxBroadcastFailed(_, c, _) => format!("TxBroadcastFailed({})", *c as u32),
        Error::TxExecutionFailed(_, c, _) => format!("TxExecutionFailed({})", *c as u32),
        Error::TxRejected(_, c, _) => format!("TxRejected({})", *c as u32),
        Error::TxEvicted(_) => "TxEvicted".into(),
        Error::TxNotFound(_) => "TxNotFound".into(),
        Error::TonicError(s) => format!("TonicError({:?})", s.code()),
        Error::SequenceParsingFailed(_) => "SequenceParsingFailed".into(),
        other => format!("Other({other})"),
    }
}

fn spawn_submission(client: &GrpcClient, node: &FakeNode, sub: usize, estimate: bool, blob: bool, from: String) -> tokio::task::JoinHandle<()> {
    let client = client.clone();
    let node = node.clone();
    tokio::spawn(async move {
        let msg = MsgSend {
            from_address: from,
            to_address: "celestia169s50psyj2f4la9a2235329xz7rk6c53zhw9mm".to_string(),
            amount: vec![celestia_proto::cosmos::base::v1beta1::Coin { denom: "utia".into(), amount: (1000 + sub).to_string() }],
        };
        let mut cfg = TxConfig::default().with_memo(format!("sub-{sub}")).with_confirmation_interval_ms(CONFIRM_INTERVAL_MS);
        if !estimate {
            cfg = cfg.with_gas_limit(100_000).with_gas_price(0.002);
        }
        let submitted = if blob {
            let ns = celestia_types::nmt::Namespace::new_v0(&[0xc4, 0x03, sub as u8]).expect("namespace");
            let b = celestia_types::Blob::new(ns, vec![sub as u8; 100 + sub], None, celestia_types::AppVersion::latest()).expect("blob");
            client.broadcast_blobs(&[b], cfg).await
        } else {
            client.broadcast_message(msg, cfg).await
        };
        let what = match submitted {
            Err(e) => json!({"stage": "finished", "result": err_kind(&e)}),
            Ok(submitted) => {
                let b = submitted.tx_ref().clone();
                node.push_done(sub, json!({"stage": "broadcasted", "tx": hex::encode(&b.tx), "hash": b.hash.to_string(), "sequence": b.sequence}).to_string());
                match submitted.confirm().await {
                    Ok(info) => json!({"stage": "finished", "result": "Ok", "height": info.height}),
                    Err(e) => json!({"stage": "finished", "result": err_kind(&e)}),
                }
            }
        };
        node.push_done(sub, what.to_string());
    })
}

struct Run {
    taken_obs: u64,
    class: String,
    viol: Vec<(String, String)>,
    events: u64,
}

fn run(cfg: &Config, seed: u64, prefix: &[u32], keep: bool) -> Exec {
    let mut ch = Chooser::new(prefix, keep);
    let rt = paused_runtime();
    let out = guard(|| rt.block_on(execute(cfg, seed, &mut ch, keep)));
    match out {
        Err(p) => Exec::from_chooser(ch, "panic", 0, vec![("panic".into(), format!("execution panicked: {p}"))], 0),
        Ok(r) => Exec::from_chooser(ch, r.class, r.taken_obs, r.viol, r.events),
    }
}

async fn execute(cfg: &Config, seed: u64, ch: &mut Chooser, keep: bool) -> Run {
    let sk = signing_key(seed);
    let vk = *sk.verifying_key();
    let address = AccAddress::from(vk).to_string();
    let addr2 = address.clone();
    let node = FakeNode::with_auto(move |_, path, _| match path {
        P_BLOCK => Some(Answer::Msg(latest_block_response().clone())),
        P_ACCOUNT => Some(Answer::msg(&QueryAccountResponse {
            account: Some(tendermint_proto::google::protobuf::Any {
                type_url: RawBaseAccount::type_url(),
                value: RawBaseAccount { address: addr2.clone(), pub_key: None, account_number: ACCOUNT_NUMBER, sequence: S0 }.encode_to_vec(),
            }),
        })),
        _ => None,
    });
    let client = GrpcClient::builder().transport(node.endpoint(0)).signer_keypair(sk).build().expect("client");

    let k = cfg.estimate.len();
    let total = k + 1; // + the final probe submission
    let mut m = Model {
        v: vec![S0],
        phase: vec![Phase::Signing; total],
        pending_rollback: vec![None; total],
        sleeping: vec![false; total],
        expect_rebroadcast: vec![false; total],
        finished: vec![false; total],
        viol: vec![],
        trace: vec![],
    };
    let mut results: Vec<Option<SubResult>> = (0..total).map(|_| None).collect();
    let mut hash_to_sub: HashMap<String, usize> = HashMap::new();
    // requests seen so far: id -> decoded
    let mut fresh_inflight: HashMap<u64, (usize, u64, Vec<u8>)> = HashMap::new();
    let mut log_pos = 0usize;
    let mut events = 0u64;
    let mut handles = vec![];
    for sub in 0..k {
        handles.push(spawn_submission(&client, &node, sub, cfg.estimate[sub], cfg.blob.get(sub).copied().unwrap_or(false), address.clone()));
    }
    let mut probe_started = false;
    let mut class = "completed".to_string();
    let horizon = 60u64;
    let mut nontrivial = false;

    loop {
        settle().await;
        // ---- feed the model with what happened, in order
        for ev in node.log_since(log_pos) {
            log_pos += 1;
            match ev {
                Ev::Arrive { auto: true, .. } => {}
                Ev::Arrive { id, path, body, .. } => match path.as_str() {
                    P_BROADCAST => {
                        let tx_bytes = match BroadcastTxRequest::decode(body.as_slice()) {
                            Ok(r) => r.tx_bytes,
                            Err(e) => {
                                m.violation("undecodable-request", format!("BroadcastTxRequest: {e}"));
                                continue;
                            }
                        };
                        let d = match decode_tx(&tx_bytes, &vk) {
                            Ok(d) if d.sub < total => d,
                            other => {
                                // bytes that are not a transaction of ours: if a re-broadcast is due,
                                // they are a re-broadcast that differs from the accepted transaction
                                if let Some(sub) = (0..total).find(|s| m.expect_rebroadcast[*s]) {
                                    m.violation("evicted-tx-resigned", format!("submission {sub} was due to re-broadcast its accepted transaction, but the node received different bytes ({other:?})"));
                                } else {
                                    m.violation("undecodable-request", format!("broadcast tx: {other:?}"));
                                }
                                continue;
                            }
                        };
                        match m.phase[d.sub].clone() {
                            Phase::Signing => {
                                count(&EV_FRESH, keep);
                                m.trace.push(format!("fresh sub{} seq{}", d.sub, d.sequence));
                                if !m.v.contains(&d.sequence) {
                                    let v = m.v.clone();
                                    m.violation(
                                        "signed-with-unexpected-sequence",
                                        format!("submission {} broadcast a transaction signed with sequence {} while the client's current sequence is {:?}", d.sub, d.sequence, v),
                                    );
                                }
                                // the signing shows which admissible belief the client holds
                                m.v = vec![d.sequence];
                                if !d.sig_ok {
                                    m.violation("signature-does-not-cover-sequence", format!("submission {}: signature does not verify over the broadcast body/auth_info (sequence {})", d.sub, d.sequence));
                                }
                                if let Some((other, _, _)) = fresh_inflight.values().find(|(o, s, _)| *o != d.sub && *s == d.sequence) {
                                    let other = *other;
                                    m.violation(
                                        "two-inflight-txs-share-a-sequence",
                                        format!("submission {} signed with sequence {} while the broadcast of submission {other}, signed with the same sequence, was still unanswered", d.sub, d.sequence),
                                    );
                                }
                                fresh_inflight.insert(id, (d.sub, d.sequence, tx_bytes));
                            }
                            Phase::Confirming { tx, sequence, .. } => {
                                count(&EV_REBROADCAST, keep);
                                m.expect_rebroadcast[d.sub] = false;
                                m.trace.push(format!("rebroadcast sub{} seq{}", d.sub, d.sequence));
                                if tx != tx_bytes {
                                    m.violation(
                                        "evicted-tx-resigned",
                                        format!("submission {} re-broadcast a transaction that differs from the accepted one (sequence {} vs accepted {})", d.sub, d.sequence, sequence),
                                    );
                                }
                            }
                        }
                    }
                    P_ESTIMATE => {
                        let Ok(r) = EstimateGasPriceAndUsageRequest::decode(body.as_slice()) else {
                            m.violation("undecodable-request", "EstimateGasPriceAndUsageRequest".into());
                            continue;
                        };
                        match decode_tx(&r.tx_bytes, &vk) {
                            Ok(d) if d.sub < total => {
                                count(&EV_SIMULATE, keep);
                                m.trace.push(format!("simulate sub{} seq{}", d.sub, d.sequence));
                                if !m.v.contains(&d.sequence) {
                                    let v = m.v.clone();
                                    m.violation(
                                        "signed-with-unexpected-sequence",
                                        format!("submission {} simulated a transaction signed with sequence {} while the client's current sequence is {:?}", d.sub, d.sequence, v),
                                    );
                                }
                                m.v = vec![d.sequence];
                            }
                            other => m.violation("undecodable-request", format!("simulated tx: {other:?}")),
                        }
                    }
                    P_STATUS => {
                        if let Ok(r) = TxStatusRequest::decode(body.as_slice()) {
                            if let Some(sub) = hash_to_sub.get(&r.tx_id) {
                                m.sleeping[*sub] = false;
                                m.trace.push(format!("status? sub{sub}"));
                            } else {
                                m.violation("status-for-unknown-hash", format!("TxStatus asked for {} which the node never returned", r.tx_id));
                            }
                        }
                    }
                    other => m.violation("unexpected-rpc", format!("unexpected request {other}")),
                },
                Ev::Done { call, what } => {
                    let w: Value = serde_json::from_str(&what).unwrap_or(Value::Null);
                    if w["stage"] == "broadcasted" {
                        // what the caller is told must be the accepted transaction
                        if let Phase::Confirming { tx, hash, sequence } = &m.phase[call] {
                            let ok = w["tx"] == hex::encode(tx) && w["sequence"] == *sequence && w["hash"].as_str().is_some_and(|h| h.eq_ignore_ascii_case(hash));
                            if !ok {
                                let (s, rs) = (*sequence, w["sequence"].clone());
                                m.violation("reported-tx-differs-from-accepted", format!("submission {call}: BroadcastedTx reports sequence {rs} / other bytes, accepted broadcast had sequence {s}"));
                            }
                        } else {
                            m.violation("reported-tx-differs-from-accepted", format!("submission {call} reported a broadcast but none was accepted by the node"));
                        }
                        continue;
                    }
                    m.finished[call] = true;
                    let res = w["result"].as_str().unwrap_or("?").to_string();
                    m.trace.push(format!("done sub{call} {res}"));
                    if let Some(seq) = m.pending_rollback[call].take() {
                        if res.starts_with("TxRejected(") {
                            count(&EV_ROLLBACK, keep);
                            // the statement does not fix the belief after a rejected confirmation:
                            // it may stay as it is or go back to the rejected transaction's sequence
                            if !m.v.contains(&seq) {
                                m.v.push(seq);
                                m.v.sort();
                            }
                        }
                    }
                    results[call] = Some(if res == "Ok" { SubResult::Ok { height: w["height"].as_u64().unwrap_or(0) } } else { SubResult::Err(res) });
                }
            }
        }
        if !m.viol.is_empty() {
            class = "violation".into();
            break;
        }
        if events >= horizon {
            class = "horizon".into();
            break;
        }
        let all_done = (0..k).all(|s| m.finished[s]);
        if all_done && !probe_started {
            probe_started = true;
            handles.push(spawn_submission(&client, &node, k, false, false, address.clone()));
            continue;
        }
        if all_done && m.finished[k] {
            break;
        }

        // ---- environment choice
        let parked = node.parked();
        let sleepers = (0..total).any(|s| m.sleeping[s] && !m.finished[s]);
        if parked.is_empty() {
            if sleepers {
                tokio::time::sleep(Duration::from_millis(CONFIRM_INTERVAL_MS)).await;
                continue;
            }
            m.violation("submission-never-returns", format!("no request outstanding, no poller waiting, unfinished submissions: {:?}", (0..total).filter(|s| !m.finished[*s]).collect::<Vec<_>>()));
            class = "violation".into();
            break;
        }
        if parked.len() > 1 {
            count(&EV_CONTENDED, keep);
        }
        let in_probe = probe_started;
        let n_opts = parked.len() + usize::from(sleepers && !in_probe);
        let which = if n_opts > 1 && !in_probe {
            ch.choose(n_opts, || {
                let mut l: Vec<String> = parked.iter().map(|p| p.2.rsplit('/').next().unwrap_or("").to_string()).collect();
                if sleepers {
                    l.push("let the polling timers fire".into());
                }
                format!("next: one of {l:?} (oldest first)")
            })
        } else {
            0
        };
        if which >= parked.len() {
            tokio::time::sleep(Duration::from_millis(CONFIRM_INTERVAL_MS)).await;
            nontrivial = true;
            continue;
        }
        let (id, _, path, body) = parked[which].clone();
        events += 1;
        match path.as_str() {
            P_BROADCAST => {
                let tx_bytes = BroadcastTxRequest::decode(body.as_slice()).map(|r| r.tx_bytes).unwrap_or_default();
                if let Some((sub, s, _)) = fresh_inflight.get(&id).cloned() {
                    let menu = broadcast_menu(s, true, cfg.wide_menu);
                    let a = if in_probe { BAns::Ok } else { menu[ch.choose(menu.len(), || format!("BroadcastTx of submission {sub} signed with sequence {s}: {menu:?}"))].clone() };
                    m.trace.push(format!("answer fresh sub{sub} {a:?}"));
                    match &a {
                        BAns::Ok | BAns::MempoolCache => {
                            if a == BAns::MempoolCache {
                                count(&EV_CACHE_HIT, keep);
                            }
                            m.v.iter_mut().for_each(|x| *x += 1);
                            let hash = sha_hex_upper(&tx_bytes);
                            hash_to_sub.insert(hash.clone(), sub);
                            m.phase[sub] = Phase::Confirming { tx: tx_bytes.clone(), hash, sequence: s };
                        }
                        BAns::Mismatch { expected, .. } => {
                            count(&EV_RESYNC, keep);
                            m.v = vec![*expected];
                        }
                        BAns::Rejected | BAns::GrpcError => count(&EV_REJECTION, keep),
                    }
                    nontrivial |= a != BAns::Ok;
                    fresh_inflight.remove(&id);
                    node.release(id, broadcast_answer(&a, &tx_bytes, s));
                } else {
                    // re-broadcast of an accepted transaction
                    let d = decode_tx(&tx_bytes, &vk).ok();
                    let (sub, s) = d.map(|d| (d.sub, d.sequence)).unwrap_or((0, 0));
                    let menu = broadcast_menu(s, false, cfg.wide_menu);
                    let a = menu[ch.choose(menu.len(), || format!("re-broadcast of submission {sub} (sequence {s}): {menu:?}"))].clone();
                    m.trace.push(format!("answer rebroadcast sub{sub} {a:?}"));
                    nontrivial |= a != BAns::Ok;
                    node.release(id, broadcast_answer(&a, &tx_bytes, s));
                }
            }
            P_STATUS => {
                let tx_id = TxStatusRequest::decode(body.as_slice()).map(|r| r.tx_id).unwrap_or_default();
                let sub = hash_to_sub.get(&tx_id).copied().unwrap_or(0);
                let menu = status_menu(cfg.wide_menu);
                let a = if in_probe { SAns::Committed } else { menu[ch.choose(menu.len(), || format!("TxStatus of submission {sub}: {menu:?}"))].clone() };
                m.trace.push(format!("answer status sub{sub} {a:?}"));
                match a {
                    SAns::Pending => m.sleeping[sub] = true,
                    SAns::Evicted | SAns::Unknown => m.expect_rebroadcast[sub] = true,
                    // (either kind of rejection: the statement fixes the belief after neither)
                    SAns::RejectedOther | SAns::RejectedSequence => {
                        if let Phase::Confirming { sequence, .. } = &m.phase[sub] {
                            m.pending_rollback[sub] = Some(*sequence);
                        }
                    }
                    _ => {}
                }
                nontrivial |= a != SAns::Committed;
                node.release(id, status_answer(&a, sub));
            }
            P_ESTIMATE => {
                let d = EstimateGasPriceAndUsageRequest::decode(body.as_slice()).ok().and_then(|r| decode_tx(&r.tx_bytes, &vk).ok());
                let (sub, s) = d.map(|d| (d.sub, d.sequence)).unwrap_or((0, 0));
                let menu = estimate_menu(s);
                let a = menu[ch.choose(menu.len(), || format!("EstimateGasPriceAndUsage of submission {sub} (dummy tx signed with sequence {s}): {menu:?}"))].clone();
                m.trace.push(format!("answer estimate sub{sub} {a:?}"));
                match &a {
                    EAns::Mismatch { expected } => {
                        count(&EV_RESYNC, keep);
                        m.v = vec![*expected];
                    }
                    EAns::OtherError => count(&EV_REJECTION, keep),
                    EAns::Ok => {}
                }
                nontrivial |= a != EAns::Ok;
                node.release(id, estimate_answer(&a, s));
            }
            other => {
                m.violation("unexpected-rpc", format!("unexpected parked request {other}"));
                class = "violation".into();
                break;
            }
        }
    }
    for h in &handles {
        h.abort();
    }
    // the probe must have gone through with the final belief (checked on arrival); its result:
    if class == "completed" {
        if !matches!(results[k], Some(SubResult::Ok { .. })) {
            m.violation("probe-submission-failed", format!("final honest submission ended with {:?}", results[k]));
        }
    }
    if !keep && nontrivial {
        EXECS_NONTRIVIAL.fetch_add(1, Ordering::Relaxed);
    }
    if keep && std::env::var("C43_DEBUG").is_ok() {
        eprintln!("TRACE (final V={:?}):\n  {}", m.v, m.trace.join("\n  "));
    }
    let obs = fnv64(m.trace.join("|").as_bytes());
    Run { taken_obs: obs, class, viol: m.viol, events }
}

fn explore(cfg: &Config, seed: u64, rep: &mut Report, wall_cap: Duration) -> Result<(), String> {
    let mut r = Report::new();
    let dc = DevConfig { bound: cfg.bound, wall_cap, max_execs: 50_000_000, max_deviation_pos: 0 };
    let res = explore_deviations(&dc, |p, keep| run(cfg, seed, p, keep), &mut r);
    let cfgv = serde_json::to_value(cfg).unwrap();
    for v in r.violations.iter_mut() {
        v.case["config"] = cfgv.clone();
    }
    for s in r.samples.iter_mut() {
        s["config"] = cfgv.clone();
    }
    let per = r.extras.remove("executions_by_deviations").unwrap_or(Value::Null);
    let distinct = r.extras.remove("distinct_observation_traces").unwrap_or(Value::Null);
    let execs = r.evaluations;
    r.extras.clear();
    rep.merge_in(r);
    let list = rep.extras.entry("configs".to_string()).or_insert_with(|| json!([]));
    list.as_array_mut().unwrap().push(json!({"config": cfgv, "executions": execs, "executions_by_deviations": per, "distinct_observation_traces": distinct}));
    res
}

fn main() {
    let ctx = Ctx::from_args("C43");
    let mut rep = Report::new();
    rep.sample_cap = 8;
    if let Some(c) = ctx.replay_case() {
        let cfg: Config = serde_json::from_value(c["config"].clone()).unwrap_or_else(|e| machinery_error(&ctx.id, &format!("replay config: {e}")));
        let choices: Vec<u32> = serde_json::from_value(c["choices"].clone()).unwrap_or_else(|e| machinery_error(&ctx.id, &format!("replay choices: {e}")));
        let x = run(&cfg, ctx.seed, &choices, true);
        if let Some(d) = x.diverged {
            machinery_error(&ctx.id, &d);
        }
        rep.case(x.obs_key, &x.class, true);
        for (k, what) in x.violations {
            rep.violation(&k, what, json!({"choices": x.taken, "labels": x.labels, "config": cfg}));
        }
    } else {
        let q = ctx.quick();
        let c = |estimate: &[bool], blob: &[bool], wide_menu: bool, bound: usize| Config { estimate: estimate.to_vec(), blob: blob.to_vec(), wide_menu, bound };
        let (f, t) = (false, true);
        let cfgs: Vec<Config> = if q {
            vec![
                c(&[f], &[f], true, 5),
                c(&[t], &[f], true, 4),
                c(&[f], &[t], true, 4),
                c(&[t], &[t], true, 4),
                c(&[f, f], &[f, f], true, 3),
                c(&[f, f], &[t, f], false, 3),
                c(&[t, f], &[f, t], false, 3),
                c(&[t, t], &[f, f], false, 3),
                c(&[f, f, f], &[f, f, f], false, 3),
                c(&[f, t, f], &[t, f, f], false, 3),
            ]
        } else {
            vec![
                c(&[f], &[f], true, 6),
                c(&[t], &[f], true, 5),
                c(&[f], &[t], true, 5),
                c(&[t], &[t], true, 5),
                c(&[f, f], &[f, f], true, 4),
                c(&[f, f], &[f, f], false, 5),
                c(&[f, f], &[t, f], false, 4),
                c(&[t, f], &[f, t], false, 4),
                c(&[t, t], &[f, f], false, 4),
                c(&[f, f, f], &[f, f, f], false, 4),
                c(&[f, t, f], &[t, f, f], false, 4),
            ]
        };
        let total_cap = Duration::from_secs(if q { 50 } else { 840 });
        for cfg in &cfgs {
            let left = total_cap.saturating_sub(ctx.start.elapsed());
            if left.is_zero() {
                rep.cap_hit("wall cap reached before all configurations were explored");
                break;
            }
            if let Err(e) = explore(cfg, ctx.seed, &mut rep, left) {
                machinery_error(&ctx.id, &e);
            }
        }
        for (name, ctr) in [
            ("event:fresh-broadcast", &EV_FRESH),
            ("event:simulated-tx", &EV_SIMULATE),
            ("event:sequence-resync", &EV_RESYNC),
            ("event:mempool-cache-hit", &EV_CACHE_HIT),
            ("event:broadcast-rejected", &EV_REJECTION),
            ("event:re-broadcast", &EV_REBROADCAST),
            ("event:rollback-after-rejection", &EV_ROLLBACK),
            ("event:several-requests-outstanding", &EV_CONTENDED),
        ] {
            let v = ctr.load(Ordering::Relaxed);
            if v > 0 {
                rep.classes.insert(name.to_string(), v);
            }
        }
        rep.extra("distinct_nontrivial_by_construction", json!(EXECS_NONTRIVIAL.load(Ordering::Relaxed)));
    }
    finish(
        &ctx,
        rep,
        Spec {
            rule: "executions of the real GrpcClient (broadcast_message / broadcast_blobs + confirm) over the fake node: 1..3 concurrent submissions from one client (see `configs`: per submission message or blob submission, explicit gas or gas estimation; menu width; deviation bound), choice points = which outstanding request to answer next / let the polling timers fire, and the answer: BroadcastTx {ok, sequence mismatch expecting s+1 / s-1 / s+2, TxInMempoolCache, other rejection, (wide: legacy sequence code, gRPC failure)}, re-broadcast {ok, mismatch, cache, rejection}, TxStatus {committed, pending, committed-failed, rejected other code, rejected sequence code, evicted, unknown, (wide: gRPC failure)}, EstimateGasPriceAndUsage {ok, mismatch s+1 / s-1 / s+2, other error}; all executions with at most `bound` non-default choices (default: oldest request, honest success), each followed by one honest probe submission; horizon 60 answered requests.  evaluation = one execution; non-trivial = at least one non-default choice; state = distinct observation trace; transition = one answered request",
            assumptions: &[
                "the model treats gRPC codes 32 (WrongSequence) and 3 (InvalidSequence) as the sequence-mismatch codes and 'account sequence mismatch, expected N,' as the node's message format (celestia-app / cosmos-sdk)",
                "the statement does not fix the belief after a Rejected confirmation (sequence code or not; resynchronisation is specified for mismatch answers to a broadcast only): from the completion of that call the model admits both the unchanged value and the rejected transaction's sequence, until the next signing shows which one the client holds",
                "polling timers fire only when the explorer lets them (explicit choice) or when nothing else is outstanding",
                "a submission is identified by its memo; TxStatus requests by the hash the node returned",
            ],
            required_classes: &[
                "completed",
                "event:fresh-broadcast",
                "event:simulated-tx",
                "event:sequence-resync",
                "event:mempool-cache-hit",
                "event:broadcast-rejected",
                "event:re-broadcast",
                "event:rollback-after-rejection",
                "event:several-requests-outstanding",
            ],
            exhaustive: true,
        },
    );
}
