//! C44 — gRPC calls fail over across endpoints.                         (engine E3)
//!
//! System: the real `GrpcClient` built with N in-process fake endpoints
//! (`GrpcClientBuilder::transport`), run on a paused current-thread runtime.  Every attempt of
//! every call is parked by the fake node and answered from a finite menu chosen by the
//! explorer.  Three different generated methods are used (auth params, blob params, gas
//! price), so the fail-over loop emitted by `grpc_method` is exercised in three expansions.
//!
//! Oracle (from the statement only):
//!  * a call returns an error only if every configured endpoint answered it with a
//!    network-class error, or some endpoint answered it with a non-network error (and then the
//!    returned error is that one);
//!  * a call returns a value only if some endpoint answered ok, and it is that endpoint's value;
//!  * the endpoint that succeeded is the first one tried by the next call;
//!  * no endpoint is tried twice in one call, and a final probe call in which every endpoint
//!    fails tries each configured endpoint exactly once (the set never changes), also after
//!    concurrent calls.
use celestia_grpc::grpc::TxPriority;
use celestia_grpc::{Error, GrpcClient};
use lv_core::*;
use serde::{Deserialize, Serialize};
use serde_json::{Value, json};
use std::future::IntoFuture;
use std::sync::atomic::{AtomicU64, Ordering};
use std::time::Duration;

// per-call outcome counters (counted in exploration runs only, not in sample/replay re-runs)
static CALLS_OK_FIRST: AtomicU64 = AtomicU64::new(0);
static CALLS_OK_AFTER_FAILOVER: AtomicU64 = AtomicU64::new(0);
static CALLS_ALL_ENDPOINTS_FAILED: AtomicU64 = AtomicU64::new(0);
static CALLS_NON_NETWORK_ERROR: AtomicU64 = AtomicU64::new(0);
static EXECS_NONTRIVIAL: AtomicU64 = AtomicU64::new(0);

#[path = "../shared/fake_node.rs"]
mod fake_node;
use fake_node::*;

const P_AUTH: &str = "/cosmos.auth.v1beta1.Query/Params";
const P_BLOB: &str = "/celestia.blob.v1.Query/Params";
const P_GAS: &str = "/celestia.core.v1.gas_estimation.GasEstimator/EstimateGasPrice";
const PATHS: [&str; 3] = [P_AUTH, P_BLOB, P_GAS];

#[derive(Clone, Copy, Debug, PartialEq, Eq)]
enum Class {
    Ok,
    Net,
    NonNet,
}

#[derive(Clone, Copy, Debug, PartialEq, Eq)]
struct Kind {
    name: &'static str,
    class: Class,
    /// gRPC status code for status answers
    code: Option<tonic::Code>,
}

const fn k(name: &'static str, class: Class, code: Option<tonic::Code>) -> Kind {
    Kind { name, class, code }
}

const OK: Kind = k("ok", Class::Ok, None);
const UNAVAILABLE: Kind = k("unavailable", Class::Net, Some(tonic::Code::Unavailable));
const INVALID_ARG: Kind = k("invalid-argument", Class::NonNet, Some(tonic::Code::InvalidArgument));

const MENU_CLASSES: &[Kind] = &[OK, UNAVAILABLE, INVALID_ARG];
const MENU_FULL: &[Kind] = &[
    OK,
    UNAVAILABLE,
    k("unknown", Class::Net, Some(tonic::Code::Unknown)),
    k("deadline-exceeded", Class::Net, Some(tonic::Code::DeadlineExceeded)),
    k("aborted", Class::Net, Some(tonic::Code::Aborted)),
    k("transport-error", Class::Net, None),
    INVALID_ARG,
    k("not-found", Class::NonNet, Some(tonic::Code::NotFound)),
    k("internal", Class::NonNet, Some(tonic::Code::Internal)),
    k("cancelled", Class::NonNet, Some(tonic::Code::Cancelled)),
    k("unauthenticated", Class::NonNet, Some(tonic::Code::Unauthenticated)),
    k("undecodable-message", Class::NonNet, None),
];

#[derive(Clone, Debug, Serialize, Deserialize, PartialEq)]
struct Config {
    n: usize,
    /// number of calls issued one after another before the probe
    seq_calls: usize,
    /// number of calls issued concurrently first (0 or 2..3)
    conc_calls: usize,
    full_menu: bool,
    bound: usize,
}

impl Config {
    fn menu(&self) -> &'static [Kind] {
        if self.full_menu { MENU_FULL } else { MENU_CLASSES }
    }
}

#[derive(Debug, Clone, PartialEq)]
enum CallRes {
    Ok(u64),
    Status(tonic::Code, String),
    Other(String),
    Panic(String),
}

fn ok_payload(path: &str, endpoint: usize) -> Answer {
    let v = 100 + endpoint as u64;
    match path {
        P_AUTH => Answer::msg(&celestia_proto::cosmos::auth::v1beta1::QueryParamsResponse {
            params: Some(celestia_proto::cosmos::auth::v1beta1::Params {
                max_memo_characters: v,
                tx_sig_limit: 7,
                tx_size_cost_per_byte: 10,
                sig_verify_cost_ed25519: 590,
                sig_verify_cost_secp256k1: 1000,
            }),
        }),
        P_BLOB => Answer::msg(&celestia_proto::celestia::blob::v1::QueryParamsResponse {
            params: Some(celestia_proto::celestia::blob::v1::Params {
                gas_per_blob_byte: v as u32,
                gov_max_square_size: 64,
            }),
        }),
        _ => Answer::msg(&celestia_proto::celestia::core::v1::gas_estimation::EstimateGasPriceResponse {
            estimated_gas_price: v as f64,
        }),
    }
}

fn answer_for(kind: Kind, path: &str, endpoint: usize, msg: &str) -> Answer {
    match (kind.class, kind.code) {
        (Class::Ok, _) => ok_payload(path, endpoint),
        (_, Some(code)) => Answer::status(code, msg),
        (Class::Net, None) => Answer::Transport,
        (Class::NonNet, None) => Answer::Garbage,
    }
}

fn to_res(r: Result<u64, Error>) -> CallRes {
    match r {
        Ok(v) => CallRes::Ok(v),
        Err(Error::TonicError(st)) => CallRes::Status(st.code(), st.message().to_string()),
        Err(e) => CallRes::Other(e.to_string()),
    }
}

fn spawn_call(client: &GrpcClient, node: &FakeNode, call: usize, path_idx: usize) -> tokio::task::JoinHandle<CallRes> {
    let client = client.clone();
    let node = node.clone();
    tokio::spawn(async move {
        let r = match path_idx {
            0 => client.get_auth_params().into_future().await.map(|p| p.max_memo_characters),
            1 => client.get_blob_params().into_future().await.map(|p| p.gas_per_blob_byte as u64),
            _ => client
                .estimate_gas_price(TxPriority::Medium)
                .into_future()
                .await
                .map(|p| p as u64),
        };
        let res = to_res(r);
        node.push_done(call, format!("{res:?}"));
        res
    })
}

#[derive(Debug, Clone)]
struct Attempt {
    endpoint: usize,
    kind: Kind,
    msg: String,
}

#[derive(Debug, Default)]
struct CallTrace {
    path_idx: usize,
    attempts: Vec<Attempt>,
    result: Option<CallRes>,
}

/// Statement-level check of one finished call.
fn check_call(cfg: &Config, name: &str, t: &CallTrace, viol: &mut Vec<(String, String)>) {
    let n = cfg.n;
    let eps: Vec<usize> = t.attempts.iter().map(|a| a.endpoint).collect();
    let mut sorted = eps.clone();
    sorted.sort();
    sorted.dedup();
    if sorted.len() != eps.len() || eps.iter().any(|e| *e >= n) {
        viol.push(viol_s(
            "endpoint-set-changed",
            format!("{name}: endpoints tried in one call are not distinct configured endpoints: {eps:?} (N={n})"),
        ));
    }
    let any_ok = t.attempts.iter().find(|a| a.kind.class == Class::Ok);
    let non_net: Vec<&Attempt> = t.attempts.iter().filter(|a| a.kind.class == Class::NonNet).collect();
    let all_net_failed = sorted.len() == n && t.attempts.iter().all(|a| a.kind.class == Class::Net);
    match t.result.as_ref().expect("finished call") {
        CallRes::Panic(p) => viol.push(viol_s("panic", format!("{name}: call panicked: {p}"))),
        CallRes::Ok(v) => match any_ok {
            Some(a) if *v == 100 + a.endpoint as u64 => {}
            _ => viol.push(viol_s(
                "ok-without-successful-endpoint",
                format!("{name}: returned Ok({v}) but the answers were {:?}", brief(&t.attempts)),
            )),
        },
        err => {
            if !(all_net_failed || !non_net.is_empty()) {
                viol.push(viol_s(
                    "error-before-all-endpoints-failed",
                    format!(
                        "{name}: returned {err:?} although not every endpoint failed with a network error and none returned a non-network error; answers {:?} (N={n})",
                        brief(&t.attempts)
                    ),
                ));
            } else if !non_net.is_empty() {
                // the returned error must be (one of) the non-network error(s) given
                let matches = non_net.iter().any(|a| match (a.kind.code, err) {
                    (Some(code), CallRes::Status(c, m)) => *c == code && *m == a.msg,
                    // undecodable message: tonic reports it as a non-network status of its own
                    (None, CallRes::Status(c, _)) => !code_is_network(*c),
                    _ => false,
                });
                if !matches {
                    viol.push(viol_s(
                        "wrong-error-returned",
                        format!("{name}: returned {err:?}, expected the non-network error among {:?}", brief(&t.attempts)),
                    ));
                }
            }
        }
    }
}

fn brief(a: &[Attempt]) -> Vec<String> {
    a.iter().map(|x| format!("e{}:{}", x.endpoint, x.kind.name)).collect()
}

fn viol_s(key: &str, what: String) -> (String, String) {
    (key.to_string(), what)
}

fn successful_endpoint(t: &CallTrace) -> Option<usize> {
    match t.result {
        Some(CallRes::Ok(_)) => t.attempts.iter().rev().find(|a| a.kind.class == Class::Ok).map(|a| a.endpoint),
        _ => None,
    }
}

/// One execution under the choice sequence `prefix`.
fn run(cfg: &Config, prefix: &[u32], keep: bool) -> Exec {
    let mut ch = Chooser::new(prefix, keep);
    let rt = paused_runtime();
    let menu = cfg.menu();
    let out = guard(|| {
        rt.block_on(async {
            let node = FakeNode::new();
            let mut b = GrpcClient::builder();
            for e in 0..cfg.n {
                b = b.transport(node.endpoint(e));
            }
            let client = b.build().expect("client");
            let mut viol: Vec<(String, String)> = vec![];
            let mut traces: Vec<CallTrace> = vec![];
            let mut events = 0u64;
            // endpoints that may legitimately be first for the next call (None = unconstrained)
            let mut expect_first: Option<Vec<usize>> = None;
            let horizon = cfg.n + 3;

            // ---- phase 1: concurrent calls
            if cfg.conc_calls > 0 {
                let base = traces.len();
                let mut handles = vec![];
                for c in 0..cfg.conc_calls {
                    traces.push(CallTrace { path_idx: c % 3, ..Default::default() });
                    handles.push(Some(spawn_call(&client, &node, base + c, c % 3)));
                }
                loop {
                    settle().await;
                    for (c, h) in handles.iter_mut().enumerate() {
                        if h.as_ref().is_some_and(|h| h.is_finished()) {
                            let r = h.take().unwrap().await;
                            traces[base + c].result = Some(r.unwrap_or_else(|e| CallRes::Panic(e.to_string())));
                        }
                    }
                    if handles.iter().all(|h| h.is_none()) {
                        break;
                    }
                    let parked = node.parked();
                    if parked.is_empty() {
                        viol.push(viol_s("call-never-returns", "concurrent calls pending with no request outstanding".into()));
                        break;
                    }
                    let which = if parked.len() > 1 {
                        ch.choose(parked.len(), || format!("answer which of {} outstanding requests (oldest first)", parked.len()))
                    } else {
                        0
                    };
                    let (id, ep, path, _) = parked[which].clone();
                    let c = PATHS.iter().position(|p| *p == path).expect("known path");
                    let ki = ch.choose(menu.len(), || format!("call#{} ({}) at endpoint {}: answer {:?}", base + c, path, ep, menu.iter().map(|k| k.name).collect::<Vec<_>>()));
                    let kind = menu[ki];
                    let msg = format!("c{}-e{}-a{}", base + c, ep, traces[base + c].attempts.len());
                    traces[base + c].attempts.push(Attempt { endpoint: ep, kind, msg: msg.clone() });
                    events += 1;
                    node.release(id, answer_for(kind, &path, ep, &msg));
                    if traces[base + c].attempts.len() > horizon {
                        viol.push(viol_s("endpoint-set-changed", format!("call#{} tried more than N+3 endpoints", base + c)));
                        break;
                    }
                }
                let mut succ: Vec<usize> = vec![];
                for c in 0..cfg.conc_calls {
                    if traces[base + c].result.is_some() {
                        check_call(cfg, &format!("concurrent call#{}", base + c), &traces[base + c], &mut viol);
                        if let Some(e) = successful_endpoint(&traces[base + c]) {
                            succ.push(e);
                        }
                    }
                }
                if !succ.is_empty() {
                    expect_first = Some(succ);
                }
            }

            // ---- phase 2: sequential calls, then the probe (every endpoint fails)
            if viol.is_empty() {
                for s in 0..=cfg.seq_calls {
                    let is_probe = s == cfg.seq_calls;
                    let call = traces.len();
                    let path_idx = (cfg.conc_calls + s) % 3;
                    traces.push(CallTrace { path_idx, ..Default::default() });
                    let h = spawn_call(&client, &node, call, path_idx);
                    loop {
                        settle().await;
                        if h.is_finished() {
                            break;
                        }
                        let parked = node.parked();
                        if parked.len() != 1 {
                            viol.push(viol_s("call-never-returns", format!("call#{call}: {} requests outstanding while the call is pending", parked.len())));
                            break;
                        }
                        let (id, ep, path, _) = parked[0].clone();
                        let kind = if is_probe {
                            UNAVAILABLE
                        } else {
                            menu[ch.choose(menu.len(), || format!("call#{call} ({path}) at endpoint {ep}: answer {:?}", menu.iter().map(|k| k.name).collect::<Vec<_>>()))]
                        };
                        let msg = format!("c{call}-e{ep}-a{}", traces[call].attempts.len());
                        traces[call].attempts.push(Attempt { endpoint: ep, kind, msg: msg.clone() });
                        events += 1;
                        node.release(id, answer_for(kind, &path, ep, &msg));
                        if traces[call].attempts.len() > horizon {
                            viol.push(viol_s("endpoint-set-changed", format!("call#{call} tried more than N+3 endpoints")));
                            break;
                        }
                    }
                    if !h.is_finished() {
                        h.abort();
                        break;
                    }
                    traces[call].result = Some(h.await.unwrap_or_else(|e| CallRes::Panic(e.to_string())));
                    let name = if is_probe { format!("probe call#{call}") } else { format!("call#{call}") };
                    check_call(cfg, &name, &traces[call], &mut viol);
                    // the endpoint that succeeded last must be tried first
                    if let (Some(allowed), Some(first)) = (&expect_first, traces[call].attempts.first()) {
                        if !allowed.contains(&first.endpoint) {
                            viol.push(viol_s(
                                "successful-endpoint-not-tried-first",
                                format!("{name}: first tried endpoint {} but the endpoint(s) that succeeded before: {allowed:?}", first.endpoint),
                            ));
                        }
                    }
                    if let Some(e) = successful_endpoint(&traces[call]) {
                        expect_first = Some(vec![e]);
                    }
                    if is_probe {
                        let mut eps: Vec<usize> = traces[call].attempts.iter().map(|a| a.endpoint).collect();
                        eps.sort();
                        if eps != (0..cfg.n).collect::<Vec<_>>() {
                            viol.push(viol_s(
                                "endpoint-set-changed",
                                format!("{name}: all endpoints failing, tried {:?}; configured 0..{}", brief(&traces[call].attempts), cfg.n),
                            ));
                        }
                    }
                    if !viol.is_empty() {
                        break;
                    }
                }
            }
            (traces, viol, events)
        })
    });
    match out {
        Err(p) => Exec::from_chooser(ch, "panic", 0, vec![viol_s("panic", format!("execution panicked: {p}"))], 0),
        Ok((traces, viol, events)) => {
            let desc: Vec<String> = traces
                .iter()
                .map(|t| format!("{}:{:?}=>{:?}", t.path_idx, brief(&t.attempts), t.result))
                .collect();
            let obs = fnv64(desc.join("|").as_bytes());
            // class: the set of per-call outcomes seen among the non-probe calls
            let upto = traces.len().saturating_sub(1);
            let mut letters: Vec<char> = vec![];
            for t in &traces[..upto] {
                let (c, ctr) = match (&t.result, t.attempts.len()) {
                    (Some(CallRes::Ok(_)), 1) => ('o', Some(&CALLS_OK_FIRST)),
                    (Some(CallRes::Ok(_)), _) => ('f', Some(&CALLS_OK_AFTER_FAILOVER)),
                    (Some(CallRes::Status(..)), l) if l == cfg.n && t.attempts.iter().all(|a| a.kind.class == Class::Net) => ('x', Some(&CALLS_ALL_ENDPOINTS_FAILED)),
                    (Some(CallRes::Status(..)), _) => ('e', Some(&CALLS_NON_NETWORK_ERROR)),
                    _ => ('?', None),
                };
                letters.push(c);
                if let (Some(ctr), false) = (ctr, keep) {
                    ctr.fetch_add(1, Ordering::Relaxed);
                }
            }
            if !keep && traces[..upto].iter().any(|t| t.attempts.iter().any(|a| a.kind.class != Class::Ok)) {
                EXECS_NONTRIVIAL.fetch_add(1, Ordering::Relaxed);
            }
            letters.sort();
            letters.dedup();
            let class = format!("exec:{}", letters.into_iter().collect::<String>());
            Exec::from_chooser(ch, class, obs, viol, events)
        }
    }
}

fn explore(cfg: &Config, rep: &mut Report, wall_cap: Duration) -> Result<(), String> {
    let mut r = Report::new();
    let dc = DevConfig {
        bound: cfg.bound,
        wall_cap,
        max_execs: 20_000_000,
        max_deviation_pos: 0,
    };
    let res = explore_deviations(&dc, |p, keep| run(cfg, p, keep), &mut r);
    let cfgv = serde_json::to_value(cfg).unwrap();
    for v in r.violations.iter_mut() {
        v.case["config"] = cfgv.clone();
    }
    for s in r.samples.iter_mut() {
        s["config"] = cfgv.clone();
    }
    let mut per = r.extras.remove("executions_by_deviations").unwrap_or(Value::Null);
    if let Some(a) = per.as_array_mut() {
        while a.last().is_some_and(|v| v.as_u64() == Some(0)) {
            a.pop();
        }
    }
    let distinct = r.extras.remove("distinct_observation_traces").unwrap_or(Value::Null);
    r.extras.remove("deviation_bound");
    let execs = r.evaluations;
    r.extras.clear();
    rep.merge_in(r);
    let list = rep.extras.entry("configs".to_string()).or_insert_with(|| json!([]));
    list.as_array_mut().unwrap().push(json!({
        "config": cfgv, "executions": execs, "executions_by_deviations": per, "distinct_observation_traces": distinct,
    }));
    res
}

fn main() {
    let ctx = Ctx::from_args("C44");
    let mut rep = Report::new();
    rep.sample_cap = 8;
    if let Some(c) = ctx.replay_case() {
        let cfg: Config = serde_json::from_value(c["config"].clone()).unwrap_or_else(|e| machinery_error(&ctx.id, &format!("replay config: {e}")));
        let choices: Vec<u32> = serde_json::from_value(c["choices"].clone()).unwrap_or_else(|e| machinery_error(&ctx.id, &format!("replay choices: {e}")));
        let x = run(&cfg, &choices, true);
        if let Some(d) = x.diverged {
            machinery_error(&ctx.id, &d);
        }
        rep.case(x.obs_key, &x.class, true);
        for (k, what) in x.violations {
            rep.violation(&k, what, json!({"choices": x.taken, "labels": x.labels, "config": cfg}));
        }
    } else {
        let q = ctx.quick();
        let big = 96usize; // "unbounded": more than the number of choice points of any execution, i.e. every assignment
        let mut cfgs: Vec<Config> = vec![];
        // simplest first
        for n in 1..=5 {
            cfgs.push(Config { n, seq_calls: 3, conc_calls: 0, full_menu: false, bound: big });
        }
        for n in 1..=(if q { 2 } else { 3 }) {
            cfgs.push(Config { n, seq_calls: 2, conc_calls: 0, full_menu: true, bound: big });
        }
        for n in 1..=5 {
            cfgs.push(Config { n, seq_calls: 3, conc_calls: 0, full_menu: true, bound: if q { 3 } else { 4 } });
        }
        for n in 1..=5 {
            cfgs.push(Config { n, seq_calls: 1, conc_calls: 2, full_menu: false, bound: big });
        }
        for n in 2..=3 {
            cfgs.push(Config { n, seq_calls: 1, conc_calls: 3, full_menu: false, bound: if q { 4 } else { big } });
        }
        if !q {
            cfgs.push(Config { n: 4, seq_calls: 1, conc_calls: 3, full_menu: false, bound: 8 });
        }
        for n in 2..=5 {
            cfgs.push(Config { n, seq_calls: 1, conc_calls: 2, full_menu: true, bound: if q { 2 } else { 4 } });
        }
        let total_cap = Duration::from_secs(if q { 50 } else { 800 });
        for cfg in &cfgs {
            let left = total_cap.saturating_sub(ctx.start.elapsed());
            if left.is_zero() {
                rep.cap_hit("wall cap reached before all configurations were explored");
                break;
            }
            if let Err(m) = explore(cfg, &mut rep, left) {
                machinery_error(&ctx.id, &m);
            }
        }
    }
    if ctx.replay.is_none() {
        if rep.max_depth >= 96 {
            rep.cap_hit("an execution had as many choice points as the 'every assignment' bound");
        }
        for (name, ctr) in [
            ("call:ok-at-first-endpoint", &CALLS_OK_FIRST),
            ("call:ok-after-failover", &CALLS_OK_AFTER_FAILOVER),
            ("call:error-all-endpoints-failed", &CALLS_ALL_ENDPOINTS_FAILED),
            ("call:error-non-network", &CALLS_NON_NETWORK_ERROR),
        ] {
            let v = ctr.load(Ordering::Relaxed);
            if v > 0 {
                rep.classes.insert(name.to_string(), v);
            }
        }
        rep.extra("distinct_nontrivial_by_construction", json!(EXECS_NONTRIVIAL.load(Ordering::Relaxed)));
    }
    finish(
        &ctx,
        rep,
        Spec {
            rule: "executions of the real GrpcClient over N fake endpoints; choice points = which outstanding request to answer (concurrent phase) and the answer kind per (call, endpoint) attempt; configurations (see `configs`): sequential 3 calls, class menu {ok, unavailable, invalid-argument}, N=1..5, every assignment; sequential 2 calls, full menu (ok, 5 network kinds incl. transport error, 6 non-network kinds incl. undecodable message), N=1..2 (quick) / 1..3 (thorough), every assignment; sequential 3 calls, full menu, N=1..5, <=3 (quick) / <=4 (thorough) non-default answers; 2 concurrent calls with every interleaving of their responses + 1 follow-up call, class menu, N=1..5, every assignment; 3 concurrent calls, class menu, N=2..3 <=4 deviations (quick) / N=2..3 every assignment and N=4 <=8 deviations (thorough); 2 concurrent calls full menu N=2..5 <=2/<=4 deviations; every execution ends with a probe call in which every endpoint fails.  evaluation = one execution (distinct choice sequence of its configuration); non-trivial = at least one non-ok answer; state = distinct observation trace (attempted endpoints, answers, results); transition = one answered request; classes `exec:<set>` = set of per-call outcomes in an execution (o ok at first endpoint, f ok after fail-over, x all endpoints failed, e non-network error), `call:*` = per-call totals",
            assumptions: &[
                "network-class errors are the gRPC codes Unavailable, Unknown, DeadlineExceeded, Aborted and failures of the transport itself (the crate's documented classification); every other status and an undecodable response message are non-network errors",
                "under concurrent calls 'the endpoint that succeeds becomes the first one tried next' is read as: the first endpoint tried by the next call is one of the endpoints that succeeded in the concurrent batch",
                "the order in which the remaining endpoints are tried is not constrained by the statement and is not checked",
            ],
            required_classes: &["call:ok-at-first-endpoint", "call:ok-after-failover", "call:error-all-endpoints-failed", "call:error-non-network"],
            exhaustive: true,
        },
    );
}
