//! C45 — Verified balances are backed by a proof to the header's app hash.   (engine E1 via the client)
//!
//! System: the real `GrpcClient::get_verified_balance` over the in-process fake node, which
//! answers the client's ABCI query from a tiny committed world (bank store of 1..N accounts in
//! an IAVL-shaped tree, multistore of 1..4 stores in a simple merkle tree; proof chains built
//! by hand, self-checked with the `ics23` crate) and then applies one tamper from a
//! systematic catalogue.  The header handed to the client carries the multistore root of the
//! world at height-1 as app hash (or a tampered one).
//!
//! Oracle (independent of lumina): `Ok(coin)` is allowed only if the answer as sent carries a
//! chain [bank-store op for exactly the account's balance key, multistore op for "bank"] whose
//! recomputed hashes link (key, returned value) — or, for an empty value, the absence of the
//! key between two adjacent proven neighbours — to the header's app hash, and coin equals the
//! returned value (0 for a proven absence).  As a second line the reported amount must equal
//! the true balance in the committed world.
use celestia_grpc::GrpcClient;
use celestia_proto::cosmos::base::tendermint::v1beta1::{AbciQueryRequest, AbciQueryResponse as RawAbciQueryResponse, ProofOp, ProofOps};
use celestia_types::ExtendedHeader;
use celestia_types::state::{AccAddress, Address};
use celestia_types::test_utils::ExtendedHeaderGenerator;
use ics23::commitment_proof::Proof;
use ics23::{CommitmentProof, ExistenceProof, HashOp, LengthOp};
use lv_core::*;
use prost::Message;
use serde::{Deserialize, Serialize};
use serde_json::json;
use std::future::IntoFuture;
use std::sync::{Arc, Mutex, OnceLock};

#[path = "../shared/abci_fixture.rs"]
mod abci_fixture;
#[path = "../shared/fake_node.rs"]
mod fake_node;
use abci_fixture::*;
use fake_node::*;

const P_ABCI: &str = "/cosmos.base.tendermint.v1beta1.Service/ABCIQuery";
const HEADER_HEIGHT: u64 = 5;

const STORE_SETS: &[&[&str]] = &[
    &["bank"],
    &["auth", "bank"],
    &["bank", "staking"],
    &["auth", "bank", "staking"],
    &["acc", "bank", "mint", "staking"],
    &["bank", "gov", "mint", "staking"],
    &["acc", "auth", "authz", "bank"],
];

const AMOUNTS: &[u64] = &[1000, 1000, 250, 7, 18446744073709551615, 30, 1000];

#[derive(Clone, Debug, Serialize, Deserialize, PartialEq)]
struct WorldCfg {
    accounts: usize,
    store_set: usize,
}

#[derive(Clone, Copy, Debug, Serialize, Deserialize, PartialEq)]
enum Target {
    /// the i-th account of the bank store
    Present(usize),
    /// an address that sorts into gap g (before account g), not in the store
    Absent(usize),
}

/// The committed state at one height.
struct World {
    addrs: Vec<[u8; 20]>,
    bank: IavlTree,
    multi: MultiStore,
}

fn bank_key(addr: &[u8; 20]) -> Vec<u8> {
    let mut k = vec![0x02, 20];
    k.extend_from_slice(addr);
    k.extend_from_slice(b"utia");
    k
}

fn account_addr(seed: u64, i: usize) -> [u8; 20] {
    let mut a: [u8; 20] = Fill::new(seed, 100 + i as u64).array();
    a[0] = 0x10 * (i as u8 + 1);
    a
}

fn gap_addr(seed: u64, g: usize) -> [u8; 20] {
    let mut a: [u8; 20] = Fill::new(seed, 200 + g as u64).array();
    a[0] = 0x10 * (g as u8) + 8;
    a
}

fn world(seed: u64, cfg: &WorldCfg, height: i64) -> World {
    let addrs: Vec<[u8; 20]> = (0..cfg.accounts).map(|i| account_addr(seed, i)).collect();
    // other heights hold other balances (so a proof for the wrong height cannot match)
    let bump = (height - (HEADER_HEIGHT as i64 - 1)).unsigned_abs();
    let leaves = addrs
        .iter()
        .enumerate()
        .map(|(i, a)| IavlLeaf {
            key: bank_key(a),
            value: AMOUNTS[i % AMOUNTS.len()].wrapping_add(bump).max(1).to_string().into_bytes(),
            version: 1 + i as i64,
        })
        .collect();
    let bank = IavlTree::new(leaves);
    let stores = STORE_SETS[cfg.store_set]
        .iter()
        .enumerate()
        .map(|(i, name)| {
            let root = if *name == "bank" {
                bank.root().to_vec()
            } else {
                Fill::new(seed, 300 + i as u64).bytes(32)
            };
            (name.to_string(), root)
        })
        .collect();
    World {
        addrs,
        bank,
        multi: MultiStore::new(stores),
    }
}

/// The mutable parts of an answer (and of the header) a tamper may touch.
#[derive(Clone, Debug)]
struct Parts {
    code: u32,
    value: Vec<u8>,
    /// None = `proof_ops` absent
    ops: Option<Vec<(String, Vec<u8>, OpData)>>,
    app_hash: Vec<u8>,
}

#[derive(Clone, Debug)]
enum OpData {
    Proof(CommitmentProof),
    Raw(Vec<u8>),
}

fn honest_parts(w: &World, key: &[u8]) -> Parts {
    let (value, p0) = match w.bank.index_of(key) {
        Some(i) => (w.bank.leaves[i].value.clone(), commitment_exist(w.bank.exist(i))),
        None => (vec![], commitment_nonexist(w.bank.nonexist(key))),
    };
    Parts {
        code: 0,
        value,
        ops: Some(vec![
            ("ics23:iavl".into(), key.to_vec(), OpData::Proof(p0)),
            ("ics23:simple".into(), b"bank".to_vec(), OpData::Proof(commitment_exist(w.multi.exist("bank")))),
        ]),
        app_hash: w.multi.root().to_vec(),
    }
}

fn assemble(p: &Parts, key: &[u8], height: i64) -> RawAbciQueryResponse {
    RawAbciQueryResponse {
        code: p.code,
        log: if p.code == 0 { String::new() } else { "query failed".into() },
        info: String::new(),
        index: 0,
        key: key.to_vec(),
        value: p.value.clone(),
        proof_ops: p.ops.as_ref().map(|ops| ProofOps {
            ops: ops
                .iter()
                .map(|(t, k, d)| ProofOp {
                    r#type: t.clone(),
                    key: k.clone(),
                    data: match d {
                        OpData::Proof(c) => c.encode_to_vec(),
                        OpData::Raw(r) => r.clone(),
                    },
                })
                .collect(),
        }),
        height,
        codespace: String::new(),
    }
}

// ---------------------------------------------------------------------------------------
// tamper catalogue

#[derive(Clone, Copy, Debug, Serialize, Deserialize, PartialEq)]
enum Where {
    Prefix,
    Suffix,
}

#[derive(Clone, Debug, Serialize, Deserialize, PartialEq)]
enum Tamper {
    None,
    // value
    ValueDigit { pos: usize },
    ValueAppendDigit,
    ValueDropLastDigit,
    ValueLeadingZero,
    ValueEmpty,
    ValueFromOtherAccount { other: usize },
    // keys
    OpKeyFlip { op: usize },
    ProofKeyFlip { site: usize },
    ProofValueFlip { site: usize },
    /// the whole bank-store op replaced by the honest op of another account; `rekey` also
    /// rewrites ProofOp.key (1) and the existence proof's key (2) to the expected key
    OtherAccountProof { other: usize, rekey: u8 },
    // path steps (site = existence proof: 0.. in order op0 [exist | left, right], op1 exist)
    StepFlip { site: usize, step: usize, wh: Where, byte: usize, bit: u8 },
    StepDrop { site: usize, step: usize },
    StepDup { site: usize, step: usize },
    StepSwap { site: usize, step: usize },
    StepHashOp { site: usize, step: usize },
    StepExtraRoot { site: usize },
    // leaf op
    LeafPrefixFlip { site: usize, byte: usize, bit: u8 },
    /// the op's proof wrapped into a batch behind a decoy entry (another account's proof);
    /// `with_target` = the genuine proof is in the batch too; `compressed` = sent compressed
    BatchWrap { op: usize, with_target: bool, compressed: bool },
    LeafPrefixMarker { site: usize },
    LeafPrehashValue { site: usize },
    LeafPrehashKey { site: usize },
    LeafLength { site: usize },
    LeafHash { site: usize },
    LeafMissing { site: usize },
    // ops
    OpsSwap,
    OpsDrop { op: usize },
    OpsDupLast,
    OpsNone,
    OpsEmpty,
    SpecName { op: usize, name: String },
    DataGarbage { op: usize },
    DataEmptyProof { op: usize },
    // root
    AppHashFlip { bit: usize },
    AppHashBankRoot,
    AppHashEmpty,
    CodeNonZero,
    // absence forgeries
    /// empty value, proof ops absent
    HideNoProof,
    /// empty value, proof ops present but empty
    HideEmptyOps,
    /// empty value with the account's own (honest) membership proof
    HideWithMembershipProof,
    /// empty value with a non-existence proof made of the true neighbours of the (present) key
    HideWithNeighbours,
    /// empty value, non-existence proof naming the key itself as left / right neighbour
    HideSelfAsNeighbour { left: bool },
    NonexistDropLeft,
    NonexistDropRight,
    NonexistSwapSides,
    /// left neighbour replaced by its own predecessor / right by its successor (a gap is skipped)
    NonexistSkipLeft,
    NonexistSkipRight,
    NonexistKeyFieldFlip,
    NonexistBothNone,
    /// non-empty value sent along with a non-existence proof
    ValueWithNonexist,
    /// honest answer of another height
    OtherHeight { delta: i64 },
    /// a self-consistent forged chain that never touches the committed state: a made-up bank
    /// store proving (key, forged value) [or, `absent_claim`, the absence of a funded key] to
    /// a fake bank root R1, a made-up multistore proving bank -> R1 to a fake root R2, then
    /// `surplus` trailing ops, the first of which carries an existence value equal to R2
    /// (labelled `ics23:iavl` or `ics23:simple`).  The header keeps the honest app hash.
    ForgedChain { surplus: usize, iavl: bool, absent_claim: bool, decoy_stores: bool },
}

fn sites(p: &mut Parts) -> Vec<&mut ExistenceProof> {
    let mut out = vec![];
    if let Some(ops) = p.ops.as_mut() {
        for (_, _, d) in ops.iter_mut() {
            if let OpData::Proof(c) = d {
                match c.proof.as_mut() {
                    Some(Proof::Exist(e)) => out.push(e),
                    Some(Proof::Nonexist(n)) => {
                        if let Some(l) = n.left.as_mut() {
                            out.push(l);
                        }
                        if let Some(r) = n.right.as_mut() {
                            out.push(r);
                        }
                    }
                    _ => {}
                }
            }
        }
    }
    out
}

fn nonexist(p: &mut Parts) -> Option<&mut ics23::NonExistenceProof> {
    match p.ops.as_mut()?.first_mut()? {
        (_, _, OpData::Proof(c)) => match c.proof.as_mut()? {
            Proof::Nonexist(n) => Some(n),
            _ => None,
        },
        _ => None,
    }
}

/// Applies the tamper; false = not applicable to this base answer.
fn apply(t: &Tamper, p: &mut Parts, w: &World, key: &[u8], seed: u64, cfg: &WorldCfg) -> bool {
    let target_idx = w.bank.index_of(key);
    match t {
        Tamper::None => true,
        Tamper::ValueDigit { pos } => {
            if *pos >= p.value.len() {
                return false;
            }
            let d = p.value[*pos];
            p.value[*pos] = b'0' + ((d - b'0' + 1) % 10);
            true
        }
        Tamper::ValueAppendDigit => {
            if p.value.is_empty() || p.value.len() >= 19 {
                return false;
            }
            p.value.push(b'0');
            true
        }
        Tamper::ValueDropLastDigit => {
            if p.value.len() < 2 {
                return false;
            }
            p.value.pop();
            true
        }
        Tamper::ValueLeadingZero => {
            if p.value.is_empty() {
                return false;
            }
            p.value.insert(0, b'0');
            true
        }
        Tamper::ValueEmpty => {
            if p.value.is_empty() {
                return false;
            }
            p.value.clear();
            true
        }
        Tamper::ValueFromOtherAccount { other } => {
            let Some(i) = target_idx else { return false };
            if *other >= w.bank.leaves.len() || *other == i || w.bank.leaves[*other].value == p.value {
                return false;
            }
            p.value = w.bank.leaves[*other].value.clone();
            true
        }
        Tamper::OpKeyFlip { op } => {
            let Some(ops) = p.ops.as_mut() else { return false };
            let Some(o) = ops.get_mut(*op) else { return false };
            let l = o.1.len();
            o.1[l - 1] ^= 1;
            true
        }
        Tamper::ProofKeyFlip { site } => {
            let mut s = sites(p);
            let Some(e) = s.get_mut(*site) else { return false };
            let l = e.key.len();
            e.key[l - 1] ^= 1;
            true
        }
        Tamper::ProofValueFlip { site } => {
            let mut s = sites(p);
            let Some(e) = s.get_mut(*site) else { return false };
            let l = e.value.len();
            e.value[l - 1] ^= 1;
            true
        }
        Tamper::OtherAccountProof { other, rekey } => {
            let Some(i) = target_idx else { return false };
            if *other >= w.bank.leaves.len() || *other == i {
                return false;
            }
            let mut e = w.bank.exist(*other);
            let mut op_key = e.key.clone();
            if *rekey >= 1 {
                op_key = key.to_vec();
            }
            if *rekey >= 2 {
                e.key = key.to_vec();
            }
            p.ops.as_mut().unwrap()[0] = ("ics23:iavl".into(), op_key, OpData::Proof(commitment_exist(e)));
            true
        }
        Tamper::StepFlip { site, step, wh, byte, bit } => {
            let mut s = sites(p);
            let Some(e) = s.get_mut(*site) else { return false };
            let Some(st) = e.path.get_mut(*step) else { return false };
            let buf = match wh {
                Where::Prefix => &mut st.prefix,
                Where::Suffix => &mut st.suffix,
            };
            let Some(b) = buf.get_mut(*byte) else { return false };
            *b ^= 1 << *bit;
            true
        }
        Tamper::StepDrop { site, step } => {
            let mut s = sites(p);
            let Some(e) = s.get_mut(*site) else { return false };
            if *step >= e.path.len() {
                return false;
            }
            e.path.remove(*step);
            true
        }
        Tamper::StepDup { site, step } => {
            let mut s = sites(p);
            let Some(e) = s.get_mut(*site) else { return false };
            let Some(st) = e.path.get(*step).cloned() else { return false };
            e.path.insert(*step, st);
            true
        }
        Tamper::StepSwap { site, step } => {
            let mut s = sites(p);
            let Some(e) = s.get_mut(*site) else { return false };
            if *step + 1 >= e.path.len() || e.path[*step] == e.path[*step + 1] {
                return false;
            }
            e.path.swap(*step, *step + 1);
            true
        }
        Tamper::StepHashOp { site, step } => {
            let mut s = sites(p);
            let Some(e) = s.get_mut(*site) else { return false };
            let Some(st) = e.path.get_mut(*step) else { return false };
            st.hash = HashOp::Sha512.into();
            true
        }
        Tamper::StepExtraRoot { site } => {
            // an additional inner step on top of the honest root
            let mut s = sites(p);
            let Some(e) = s.get_mut(*site) else { return false };
            let extra = match e.path.last() {
                Some(l) => l.clone(),
                None => ics23::InnerOp { hash: HashOp::Sha256.into(), prefix: vec![1], suffix: vec![7; 32] },
            };
            e.path.push(extra);
            true
        }
        Tamper::BatchWrap { op, with_target, compressed } => {
            let decoy_idx = match target_idx {
                Some(0) if w.bank.leaves.len() > 1 => 1,
                _ => 0,
            };
            if Some(decoy_idx) == target_idx {
                return false; // no other account to use as decoy
            }
            let Some(ops) = p.ops.as_mut() else { return false };
            let Some(o) = ops.get_mut(*op) else { return false };
            let OpData::Proof(c) = &o.2 else { return false };
            let mut entries = vec![ics23::BatchEntry { proof: Some(ics23::batch_entry::Proof::Exist(w.bank.exist(decoy_idx))) }];
            if *with_target {
                entries.push(match c.proof.clone() {
                    Some(Proof::Exist(e)) => ics23::BatchEntry { proof: Some(ics23::batch_entry::Proof::Exist(e)) },
                    Some(Proof::Nonexist(n)) => ics23::BatchEntry { proof: Some(ics23::batch_entry::Proof::Nonexist(n)) },
                    _ => return false,
                });
            }
            let mut batch = CommitmentProof { proof: Some(Proof::Batch(ics23::BatchProof { entries })) };
            if *compressed {
                batch = ics23::compress(&batch).expect("compress");
            }
            o.2 = OpData::Proof(batch);
            true
        }
        Tamper::LeafPrefixFlip { site, byte, bit } => {
            let mut s = sites(p);
            let Some(e) = s.get_mut(*site) else { return false };
            let Some(l) = e.leaf.as_mut() else { return false };
            let Some(b) = l.prefix.get_mut(*byte) else { return false };
            *b ^= 1 << *bit;
            true
        }
        Tamper::LeafPrefixMarker { site } => {
            let mut s = sites(p);
            let Some(e) = s.get_mut(*site) else { return false };
            let Some(l) = e.leaf.as_mut() else { return false };
            l.prefix[0] = 1;
            true
        }
        Tamper::LeafPrehashValue { site } => {
            let mut s = sites(p);
            let Some(e) = s.get_mut(*site) else { return false };
            e.leaf.as_mut().unwrap().prehash_value = HashOp::NoHash.into();
            true
        }
        Tamper::LeafPrehashKey { site } => {
            let mut s = sites(p);
            let Some(e) = s.get_mut(*site) else { return false };
            e.leaf.as_mut().unwrap().prehash_key = HashOp::Sha256.into();
            true
        }
        Tamper::LeafLength { site } => {
            let mut s = sites(p);
            let Some(e) = s.get_mut(*site) else { return false };
            e.leaf.as_mut().unwrap().length = LengthOp::NoPrefix.into();
            true
        }
        Tamper::LeafHash { site } => {
            let mut s = sites(p);
            let Some(e) = s.get_mut(*site) else { return false };
            e.leaf.as_mut().unwrap().hash = HashOp::Sha512.into();
            true
        }
        Tamper::LeafMissing { site } => {
            let mut s = sites(p);
            let Some(e) = s.get_mut(*site) else { return false };
            e.leaf = None;
            true
        }
        Tamper::OpsSwap => {
            p.ops.as_mut().unwrap().swap(0, 1);
            true
        }
        Tamper::OpsDrop { op } => {
            p.ops.as_mut().unwrap().remove(*op);
            true
        }
        Tamper::OpsDupLast => {
            let ops = p.ops.as_mut().unwrap();
            let l = ops.last().unwrap().clone();
            ops.push(l);
            true
        }
        Tamper::OpsNone => {
            p.ops = None;
            true
        }
        Tamper::OpsEmpty => {
            p.ops = Some(vec![]);
            true
        }
        Tamper::SpecName { op, name } => {
            let o = &mut p.ops.as_mut().unwrap()[*op];
            if o.0 == *name {
                return false;
            }
            o.0 = name.clone();
            true
        }
        Tamper::DataGarbage { op } => {
            p.ops.as_mut().unwrap()[*op].2 = OpData::Raw(vec![0xff; 9]);
            true
        }
        Tamper::DataEmptyProof { op } => {
            p.ops.as_mut().unwrap()[*op].2 = OpData::Proof(CommitmentProof { proof: None });
            true
        }
        Tamper::AppHashFlip { bit } => {
            p.app_hash[*bit / 8] ^= 1 << (*bit % 8);
            true
        }
        Tamper::AppHashBankRoot => {
            if cfg.store_set == 0 {
                // single store: still not equal (multistore leaf hashing), keep the case
            }
            p.app_hash = w.bank.root().to_vec();
            true
        }
        Tamper::AppHashEmpty => {
            p.app_hash = vec![];
            true
        }
        Tamper::CodeNonZero => {
            p.code = 38;
            true
        }
        Tamper::HideNoProof => {
            if target_idx.is_none() {
                // also for absent accounts: an absence claim without any proof
            }
            p.value.clear();
            p.ops = None;
            true
        }
        Tamper::HideEmptyOps => {
            p.value.clear();
            p.ops = Some(vec![]);
            true
        }
        Tamper::HideWithMembershipProof => {
            if target_idx.is_none() {
                return false;
            }
            p.value.clear();
            true
        }
        Tamper::HideWithNeighbours => {
            let Some(i) = target_idx else { return false };
            if w.bank.leaves.len() < 2 {
                return false;
            }
            let n = ics23::NonExistenceProof {
                key: key.to_vec(),
                left: (i > 0).then(|| w.bank.exist(i - 1)),
                right: (i + 1 < w.bank.leaves.len()).then(|| w.bank.exist(i + 1)),
            };
            p.value.clear();
            p.ops.as_mut().unwrap()[0].2 = OpData::Proof(commitment_nonexist(n));
            true
        }
        Tamper::HideSelfAsNeighbour { left } => {
            let Some(i) = target_idx else { return false };
            let n = ics23::NonExistenceProof {
                key: key.to_vec(),
                left: if *left { Some(w.bank.exist(i)) } else { (i > 0).then(|| w.bank.exist(i - 1)) },
                right: if !*left { Some(w.bank.exist(i)) } else { (i + 1 < w.bank.leaves.len()).then(|| w.bank.exist(i + 1)) },
            };
            p.value.clear();
            p.ops.as_mut().unwrap()[0].2 = OpData::Proof(commitment_nonexist(n));
            true
        }
        Tamper::NonexistDropLeft => {
            let Some(n) = nonexist(p) else { return false };
            if n.left.is_none() || n.right.is_none() {
                return false;
            }
            n.left = None;
            true
        }
        Tamper::NonexistDropRight => {
            let Some(n) = nonexist(p) else { return false };
            if n.left.is_none() || n.right.is_none() {
                return false;
            }
            n.right = None;
            true
        }
        Tamper::NonexistSwapSides => {
            let Some(n) = nonexist(p) else { return false };
            std::mem::swap(&mut n.left, &mut n.right);
            true
        }
        Tamper::NonexistSkipLeft => {
            let Some(n) = nonexist(p) else { return false };
            let Some(l) = n.left.as_ref() else { return false };
            let li = w.bank.index_of(&l.key).unwrap();
            // replace by the predecessor (or drop it if there is none): skips leaf li
            n.left = (li > 0).then(|| w.bank.exist(li - 1));
            n.left.is_some() || n.right.is_some()
        }
        Tamper::NonexistSkipRight => {
            let Some(n) = nonexist(p) else { return false };
            let Some(r) = n.right.as_ref() else { return false };
            let ri = w.bank.index_of(&r.key).unwrap();
            n.right = (ri + 1 < w.bank.leaves.len()).then(|| w.bank.exist(ri + 1));
            n.left.is_some() || n.right.is_some()
        }
        Tamper::NonexistKeyFieldFlip => {
            let Some(n) = nonexist(p) else { return false };
            let l = n.key.len();
            n.key[l - 1] ^= 1;
            true
        }
        Tamper::NonexistBothNone => {
            let Some(n) = nonexist(p) else { return false };
            n.left = None;
            n.right = None;
            true
        }
        Tamper::ValueWithNonexist => {
            if nonexist(p).is_none() {
                return false;
            }
            p.value = b"1000".to_vec();
            true
        }
        Tamper::ForgedChain { surplus, iavl, absent_claim, decoy_stores } => {
            let (value, p0) = if *absent_claim {
                if target_idx.is_none() {
                    return false; // forging the absence of an absent key is no forgery
                }
                // a made-up store that simply does not contain the key
                let mut other = key.to_vec();
                let l = other.len();
                other[l - 5] ^= 0x40;
                let mut leaves = vec![IavlLeaf { key: other, value: b"5".to_vec(), version: 3 }];
                leaves.sort_by(|a, b| a.key.cmp(&b.key));
                let t = IavlTree::new(leaves);
                (vec![], (t.root(), commitment_nonexist(t.nonexist(key))))
            } else {
                // a balance different from every committed one
                let forged = b"777777".to_vec();
                let mut leaves = vec![IavlLeaf { key: key.to_vec(), value: forged.clone(), version: 2 }];
                if *decoy_stores {
                    let mut other = key.to_vec();
                    let l = other.len();
                    other[l - 5] ^= 0x40;
                    leaves.push(IavlLeaf { key: other, value: b"12".to_vec(), version: 1 });
                    leaves.sort_by(|a, b| a.key.cmp(&b.key));
                }
                let t = IavlTree::new(leaves);
                let i = t.index_of(key).unwrap();
                (forged, (t.root(), commitment_exist(t.exist(i))))
            };
            let (r1, p0) = p0;
            let mut stores = vec![("bank".to_string(), r1.to_vec())];
            if *decoy_stores {
                stores.push(("auth".to_string(), Fill::new(seed, 901).bytes(32)));
                stores.push(("staking".to_string(), Fill::new(seed, 902).bytes(32)));
            }
            let ms = MultiStore::new(stores);
            let r2 = ms.root().to_vec();
            let mut ops = vec![
                ("ics23:iavl".to_string(), key.to_vec(), OpData::Proof(p0)),
                ("ics23:simple".to_string(), b"bank".to_vec(), OpData::Proof(commitment_exist(ms.exist("bank")))),
            ];
            for j in 0..*surplus {
                let e = ExistenceProof {
                    key: b"ibc".to_vec(),
                    value: if j == 0 { r2.clone() } else { Fill::new(seed, 910 + j as u64).bytes(32) },
                    leaf: Some(std_leaf_op(if *iavl { vec![0, 2, 2] } else { vec![0] })),
                    path: vec![],
                };
                ops.push((if *iavl { "ics23:iavl" } else { "ics23:simple" }.to_string(), b"ibc".to_vec(), OpData::Proof(commitment_exist(e))));
            }
            p.value = value;
            p.ops = Some(ops);
            true
        }
        Tamper::OtherHeight { delta } => {
            let w2 = world(seed, cfg, HEADER_HEIGHT as i64 - 1 + delta);
            let hp = honest_parts(&w2, key);
            p.value = hp.value;
            p.ops = hp.ops;
            true
        }
    }
}

fn catalogue(thorough: bool) -> Vec<Tamper> {
    let mut t = vec![Tamper::None];
    for pos in 0..(if thorough { 20 } else { 4 }) {
        t.push(Tamper::ValueDigit { pos });
    }
    t.extend([Tamper::ValueAppendDigit, Tamper::ValueDropLastDigit, Tamper::ValueLeadingZero, Tamper::ValueEmpty]);
    for other in 0..7 {
        t.push(Tamper::ValueFromOtherAccount { other });
        for rekey in 0..3 {
            t.push(Tamper::OtherAccountProof { other, rekey });
        }
    }
    for op in 0..2 {
        t.push(Tamper::OpKeyFlip { op });
        t.push(Tamper::OpsDrop { op });
        t.push(Tamper::DataGarbage { op });
        t.push(Tamper::DataEmptyProof { op });
        for name in ["ics23:iavl", "ics23:simple", "ics23:smt", ""] {
            t.push(Tamper::SpecName { op, name: name.to_string() });
        }
    }
    for site in 0..3 {
        t.push(Tamper::ProofKeyFlip { site });
        t.push(Tamper::ProofValueFlip { site });
        t.push(Tamper::StepExtraRoot { site });
        t.push(Tamper::LeafPrefixMarker { site });
        t.push(Tamper::LeafPrehashValue { site });
        t.push(Tamper::LeafPrehashKey { site });
        t.push(Tamper::LeafLength { site });
        t.push(Tamper::LeafHash { site });
        t.push(Tamper::LeafMissing { site });
        let bits: Vec<u8> = if thorough { (0..8).collect() } else { vec![2] };
        for byte in 0..3 {
            for &bit in &bits {
                t.push(Tamper::LeafPrefixFlip { site, byte, bit });
            }
        }
        for step in 0..(if thorough { 4 } else { 3 }) {
            t.push(Tamper::StepDrop { site, step });
            t.push(Tamper::StepDup { site, step });
            t.push(Tamper::StepSwap { site, step });
            t.push(Tamper::StepHashOp { site, step });
            let bytes: Vec<usize> = if thorough { (0..40).collect() } else { vec![0, 3, 4, 20, 32, 36] };
            for byte in bytes {
                for &bit in &bits {
                    t.push(Tamper::StepFlip { site, step, wh: Where::Prefix, byte, bit });
                    t.push(Tamper::StepFlip { site, step, wh: Where::Suffix, byte, bit });
                }
            }
        }
    }
    for op in 0..2 {
        for with_target in [true, false] {
            for compressed in [false, true] {
                t.push(Tamper::BatchWrap { op, with_target, compressed });
            }
        }
    }
    t.extend([Tamper::OpsSwap, Tamper::OpsDupLast, Tamper::OpsNone, Tamper::OpsEmpty]);
    let bits: Vec<usize> = if thorough { (0..256).collect() } else { vec![0, 7, 100, 255] };
    for bit in bits {
        t.push(Tamper::AppHashFlip { bit });
    }
    t.extend([Tamper::AppHashBankRoot, Tamper::AppHashEmpty, Tamper::CodeNonZero]);
    t.extend([
        Tamper::HideNoProof,
        Tamper::HideEmptyOps,
        Tamper::HideWithMembershipProof,
        Tamper::HideWithNeighbours,
        Tamper::HideSelfAsNeighbour { left: true },
        Tamper::HideSelfAsNeighbour { left: false },
        Tamper::NonexistDropLeft,
        Tamper::NonexistDropRight,
        Tamper::NonexistSwapSides,
        Tamper::NonexistSkipLeft,
        Tamper::NonexistSkipRight,
        Tamper::NonexistKeyFieldFlip,
        Tamper::NonexistBothNone,
        Tamper::ValueWithNonexist,
        Tamper::OtherHeight { delta: 1 },
        Tamper::OtherHeight { delta: -1 },
    ]);
    for surplus in 0..=2 {
        for iavl in [true, false] {
            for absent_claim in [false, true] {
                for decoy_stores in [false, true] {
                    if surplus == 0 && !iavl {
                        continue; // no surplus op: the label does not exist
                    }
                    t.push(Tamper::ForgedChain { surplus, iavl, absent_claim, decoy_stores });
                }
            }
        }
    }
    t
}

// ---------------------------------------------------------------------------------------
// oracle

/// Existence proofs a commitment offers for `key` (single proof, or matching batch entries).
fn exist_candidates<'a>(c: &'a CommitmentProof, key: &[u8]) -> Vec<&'a ExistenceProof> {
    match c.proof.as_ref() {
        Some(Proof::Exist(e)) => vec![e],
        Some(Proof::Batch(b)) => b
            .entries
            .iter()
            .filter_map(|en| match en.proof.as_ref() {
                Some(ics23::batch_entry::Proof::Exist(e)) if e.key == key => Some(e),
                _ => None,
            })
            .collect(),
        _ => vec![],
    }
}

fn nonexist_candidates(c: &CommitmentProof) -> Vec<&ics23::NonExistenceProof> {
    match c.proof.as_ref() {
        Some(Proof::Nonexist(n)) => vec![n],
        Some(Proof::Batch(b)) => b
            .entries
            .iter()
            .filter_map(|en| match en.proof.as_ref() {
                Some(ics23::batch_entry::Proof::Nonexist(n)) => Some(n),
                _ => None,
            })
            .collect(),
        _ => vec![],
    }
}

fn normalize(c: CommitmentProof) -> Option<CommitmentProof> {
    if ics23::is_compressed(&c) { ics23::decompress(&c).ok() } else { Some(c) }
}

/// The amount the client may report for this answer, or None if the answer does not carry a
/// chain linking the key (and value / absence) to `app_hash`.
fn oracle_allows(w: &World, key: &[u8], resp: &RawAbciQueryResponse, app_hash: &[u8]) -> Option<u64> {
    // (the response code is not part of the proof chain: a non-zero code with a linking chain
    // may be refused by the client, but accepting it would not contradict the statement)
    let ops = &resp.proof_ops.as_ref()?.ops;
    if ops.len() != 2 || ops[0].key != key || ops[1].key != b"bank" {
        return None;
    }
    let k0 = spec_kind(&ops[0].r#type)?;
    let k1 = spec_kind(&ops[1].r#type)?;
    let p0 = normalize(decode_commitment(&ops[0].data)?)?;
    let p1 = normalize(decode_commitment(&ops[1].data)?)?;
    // multistore level: some offered proof links ("bank" -> bank root) to the app hash
    let bank_root = exist_candidates(&p1, b"bank")
        .into_iter()
        .find(|e1| exist_root(k1, e1, b"bank", &e1.value).is_some_and(|r| r == app_hash))?
        .value
        .clone();
    if !resp.value.is_empty() {
        exist_candidates(&p0, key)
            .into_iter()
            .find(|e0| exist_root(k0, e0, key, &resp.value).is_some_and(|r| r == bank_root))?;
        std::str::from_utf8(&resp.value).ok()?.parse::<u64>().ok()
    } else {
        // adjacency is judged semantically: the proven root must be the root of `w.bank` (it
        // is linked to the app hash above), so proven neighbours are genuine entries; they
        // are adjacent iff no entry of the store lies strictly between them
        if bank_root != w.bank.root() {
            return None;
        }
        let good = |n: &ics23::NonExistenceProof| -> bool {
            if n.left.is_none() && n.right.is_none() {
                return false;
            }
            for e in [&n.left, &n.right].into_iter().flatten() {
                if exist_root(k0, e, &e.key, &e.value).is_none_or(|r| r != bank_root) {
                    return false;
                }
            }
            if n.left.as_ref().is_some_and(|l| l.key.as_slice() >= key) || n.right.as_ref().is_some_and(|r| r.key.as_slice() <= key) {
                return false;
            }
            let lo = n.left.as_ref().map(|l| l.key.clone());
            let hi = n.right.as_ref().map(|r| r.key.clone());
            !w.bank
                .leaves
                .iter()
                .any(|l| lo.as_ref().is_none_or(|lo| l.key > *lo) && hi.as_ref().is_none_or(|hi| l.key < *hi))
        };
        nonexist_candidates(&p0).into_iter().find(|n| good(n))?;
        Some(0)
    }
}

// ---------------------------------------------------------------------------------------
// one case

#[derive(Clone, Debug, Serialize, Deserialize)]
struct Case {
    world: WorldCfg,
    target: Target,
    tamper: Tamper,
}

fn base_header() -> &'static ExtendedHeader {
    static H: OnceLock<ExtendedHeader> = OnceLock::new();
    H.get_or_init(|| ExtendedHeaderGenerator::new_from_height(HEADER_HEIGHT).next())
}

fn self_check(w: &World, key: &[u8], p: &Parts) -> Result<(), String> {
    let ops = p.ops.as_ref().unwrap();
    let (OpData::Proof(p0), OpData::Proof(p1)) = (&ops[0].2, &ops[1].2) else { unreachable!() };
    let bank_root = w.bank.root().to_vec();
    let ok0 = if p.value.is_empty() {
        ics23::verify_non_membership::<ShaOnly>(p0, &ics23::iavl_spec(), &bank_root, key)
    } else {
        ics23::verify_membership::<ShaOnly>(p0, &ics23::iavl_spec(), &bank_root, key, &p.value)
    };
    let ok1 = ics23::verify_membership::<ShaOnly>(p1, &ics23::tendermint_spec(), &p.app_hash, b"bank", &bank_root);
    if ok0 && ok1 { Ok(()) } else { Err(format!("honest proof chain fails the ics23 self-check (bank level {ok0}, multistore level {ok1})")) }
}

fn eval(seed: u64, case: &Case, rep: &mut Report) {
    let cfg = &case.world;
    let w = world(seed, cfg, HEADER_HEIGHT as i64 - 1);
    let addr_bytes = match case.target {
        Target::Present(i) => w.addrs[i],
        Target::Absent(g) => gap_addr(seed, g),
    };
    let key = bank_key(&addr_bytes);
    let honest = honest_parts(&w, &key);
    if let Err(e) = self_check(&w, &key, &honest) {
        machinery_error("C45", &format!("{e}; case {}", serde_json::to_string(case).unwrap()));
    }
    let mut parts = honest.clone();
    if !apply(&case.tamper, &mut parts, &w, &key, seed, cfg) {
        return; // tamper not applicable to this base answer
    }
    let resp = assemble(&parts, &key, HEADER_HEIGHT as i64 - 1);
    let allowed = oracle_allows(&w, &key, &resp, &parts.app_hash);
    let truth: u64 = match w.bank.index_of(&key) {
        Some(i) => String::from_utf8(w.bank.leaves[i].value.clone()).unwrap().parse().unwrap(),
        None => 0,
    };
    if case.tamper == Tamper::None && allowed != Some(truth) {
        machinery_error("C45", &format!("oracle rejects the honest answer: {allowed:?} vs truth {truth}"));
    }
    if let Some(a) = allowed {
        if a != truth {
            machinery_error("C45", &format!("oracle inconsistency: proof chain links value {a} but the committed balance is {truth}; case {}", serde_json::to_string(case).unwrap()));
        }
    }

    let mut header = base_header().clone();
    header.header.app_hash = parts.app_hash.clone().try_into().expect("app hash");
    let address = Address::AccAddress(AccAddress::new(tendermint::account::Id::new(addr_bytes)));

    // the node: honest for whatever is asked; the prepared (tampered) answer when the request
    // is the expected one
    let seen: Arc<Mutex<Vec<String>>> = Arc::new(Mutex::new(vec![]));
    let seen2 = seen.clone();
    let expected_key = key.clone();
    let prepared = resp.clone();
    let cfg2 = cfg.clone();
    let node = FakeNode::with_auto(move |_, path, body| {
        if path != P_ABCI {
            seen2.lock().unwrap().push(format!("unexpected rpc {path}"));
            return Some(Answer::status(tonic::Code::Unimplemented, "unexpected rpc"));
        }
        let Ok(req) = AbciQueryRequest::decode(body) else {
            return Some(Answer::status(tonic::Code::InvalidArgument, "bad request"));
        };
        if req.path != "store/bank/key" || !req.prove {
            seen2.lock().unwrap().push(format!("query path {:?} prove {}", req.path, req.prove));
            // an honest node answers such a query without a proof
            return Some(Answer::msg(&RawAbciQueryResponse { code: 0, key: req.data.clone(), value: b"1".to_vec(), height: req.height, ..Default::default() }));
        }
        if req.data == expected_key && req.height == HEADER_HEIGHT as i64 - 1 {
            return Some(Answer::msg(&prepared));
        }
        seen2.lock().unwrap().push(format!("query for another key/height ({}, {})", hex::encode(&req.data), req.height));
        let w2 = world(seed, &cfg2, req.height);
        let hp = honest_parts(&w2, &req.data);
        Some(Answer::msg(&assemble(&hp, &req.data, req.height)))
    });

    let rt = paused_runtime();
    let got = guard(|| {
        rt.block_on(async {
            let client = GrpcClient::builder().transport(node.endpoint(0)).build().expect("client");
            client.get_verified_balance(&address, &header).into_future().await
        })
    });

    let desc = serde_json::to_string(case).unwrap();
    let ckey = fnv64(desc.as_bytes());
    let nontrivial = case.tamper != Tamper::None;
    let casev = serde_json::to_value(case).unwrap();
    match got {
        Err(p) => {
            rep.case(ckey, "panic", nontrivial);
            rep.violation("panic", format!("get_verified_balance panicked: {p}"), casev);
        }
        Ok(Ok(coin)) => {
            let class = if resp.value.is_empty() { "accept:absent" } else { "accept:member" };
            let ok = allowed.is_some_and(|a| coin.amount() == a && coin.denom() == "utia");
            if ok {
                rep.case(ckey, class, nontrivial);
                if case.tamper != Tamper::None {
                    // tamper that left a linking chain intact (e.g. touches an unused field)
                    *rep.classes.entry("accept:tamper-neutral".into()).or_insert(0) += 1;
                    if std::env::var("C45_DEBUG").is_ok() {
                        eprintln!("NEUTRAL {desc}");
                    }
                }
            } else {
                rep.case(ckey, "accept:unsound", nontrivial);
                let vkey = if resp.value.is_empty() && allowed.is_none() {
                    "empty-value-accepted-without-proof"
                } else if allowed.is_none() {
                    "unproven-balance-accepted"
                } else {
                    "wrong-amount-reported"
                };
                rep.violation(
                    vkey,
                    format!(
                        "get_verified_balance returned Ok({} {}) but the answer carries no proof chain linking the balance key and value {:?} to the header's app hash (committed balance: {truth}); tamper {:?}; node saw {:?}",
                        coin.amount(),
                        coin.denom(),
                        String::from_utf8_lossy(&resp.value),
                        case.tamper,
                        seen.lock().unwrap()
                    ),
                    casev,
                );
            }
        }
        Ok(Err(e)) => {
            let kind = match &e {
                celestia_grpc::Error::AbciProof(p) => format!("reject:proof:{}", format!("{p:?}").split(['(', ' ', '{']).next().unwrap_or("?")),
                celestia_grpc::Error::AbciQuery(..) => "reject:abci-code".to_string(),
                celestia_grpc::Error::FailedToParseResponse => "reject:parse".to_string(),
                celestia_grpc::Error::TonicError(_) => "reject:grpc-status".to_string(),
                _ => "reject:other".to_string(),
            };
            let class = if case.tamper == Tamper::None { "honest-rejected".to_string() } else { kind };
            rep.case(ckey, &class, nontrivial);
        }
    }
    if rep.wants_sample() && (ckey % 211 == 0 || case.tamper == Tamper::None && ckey % 7 == 0) {
        rep.sample(|| json!({"case": case, "oracle_allows": allowed, "true_balance": truth}));
    }
}

fn main() {
    let ctx = Ctx::from_args("C45");
    let seed = ctx.seed;
    let rep = if let Some(c) = ctx.replay_case() {
        let case: Case = serde_json::from_value(c).unwrap_or_else(|e| machinery_error(&ctx.id, &format!("replay case: {e}")));
        let mut rep = Report::new();
        eval(seed, &case, &mut rep);
        rep
    } else {
        let thorough = !ctx.quick();
        let max_acc = if thorough { 7 } else { 4 };
        let store_sets: Vec<usize> = if thorough { (0..STORE_SETS.len()).collect() } else { vec![0, 1, 3, 4] };
        let cat = catalogue(thorough);
        let mut cases: Vec<Case> = vec![];
        // simplest first: small worlds, honest before tampered
        for accounts in 1..=max_acc {
            for &store_set in &store_sets {
                let mut targets: Vec<Target> = (0..accounts).map(Target::Present).collect();
                targets.extend((0..=accounts).map(Target::Absent));
                for target in targets {
                    for tamper in &cat {
                        cases.push(Case { world: WorldCfg { accounts, store_set }, target, tamper: tamper.clone() });
                    }
                }
            }
        }
        let mut rep = par_cases(cases, |case, rep| eval(seed, &case, rep));
        rep.sample_cap = 8;
        rep
    };
    finish(
        &ctx,
        rep,
        Spec {
            rule: "worlds: bank store (IAVL-shaped, hand-built) of 1..4 (quick) / 1..7 (thorough) accounts x multistore (simple merkle) store sets {bank}, {auth,bank}, {auth,bank,staking}, {acc,bank,mint,staking} (+3 more in thorough) x target = every present account and an absent address in every gap x every applicable tamper of the catalogue (value digits/length/empty/other account's value; op keys; proof keys/values; other account's whole proof with 0/1/2 keys rewritten; per path step: bit flips in prefix/suffix (quick: 6 byte positions x 1 bit; thorough: bytes 0..40 x 8 bits), drop, duplicate, swap, hash op, extra step; leaf prefix bytes/marker/prehash/length/hash/missing; ops swapped/dropped/duplicated/absent/empty; proof wrapped in a batch behind a decoy entry, with/without the genuine entry, plain/compressed; spec names; undecodable/empty proof data; app hash bit flips / bank root / empty; non-zero code; absence forgeries: empty value without proof, with empty ops, with the key's own membership proof, with its neighbours, self as neighbour, dropped/swapped/skipped neighbours, key field, both sides missing, value with non-existence proof; answer of another height; self-consistent forged chains (made-up bank store and multistore proving a forged balance or a forged absence to fake roots) with 0, 1 or 2 surplus trailing ops whose first existence value equals the fake multistore root, labelled iavl / simple, with / without decoy entries).  evaluation = one get_verified_balance call of the real client over the fake node; distinct = (world, target, tamper); non-trivial = tampered",
            assumptions: &[
                "honest proof chains are built by the harness and checked with ics23::verify_membership / verify_non_membership before use",
                "the oracle recomputes the hash chain itself (sha256, ICS-23 leaf/inner images) and checks adjacency of non-existence neighbours against the committed store; it enforces leaf/inner domain separation but not the spec's prefix-length bounds",
                "the header is taken as trusted input (only its app_hash and height are used by the code under test)",
            ],
            required_classes: &["accept:member", "accept:absent", "reject:proof:*", "reject:abci-code"],
            exhaustive: true,
        },
    );
}
